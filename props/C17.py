"""C17 Fermionic Hamiltonians and site reordering keep the physics unchanged.

Bounded runtime contracts (Engine B).  Oracles (vk/specs/c17.py) are independent of the code under test:
fermionic ladder operators defined entry by entry on occupation bit strings, site permutations as tensor
transpositions of the dense vector, the fermionic re-ordering sign as the inversion parity of the occupied
orbitals, exact diagonalisation / scipy.linalg.expm on the dense matrices, and an independent dense
contraction of the MPO / MPS site tensors (vk.specs.chain.dense, never Mpo.todense()).

Parts
  jw / jwpat / raw / ladder : int_to_h, qc_model, generate_ladder_operator, simplify_op
  swap                      : Mpo.try_swap_site (swap_site, table_row_swapped_jw, check_swap_consistency inside)
  step                      : MatrixProduct._update_mps (OFS branch) + Mpo.try_swap_site, driven exactly the way
                              gs.single_sweep / Mps._evolve_tdvp_ps2 drive them (identity local update)
  evolve / opt              : Mps.evolve (tdvp_ps2) and optimize_mps with every OFS criterion
"""
import itertools

import numpy as np

from vk.rtc.harness import run_cases
from vk.specs import chain as S
from vk.specs import c17 as F
from vk.specs import universe as U

LEVEL = "other"
TECHNIQUE = ("contracts evaluated at run time on the real functions over bounded-exhaustive inputs "
             "(bounded stand-in; nothing counted as proved)")

# kappa * eps * scale with kappa ~ 5e5: the objects are sums of <= a few thousand products of O(1) numbers on <= 256-dim
# spaces, a handful of SVD/QR factorizations per step; observed rounding is 1e-14..1e-13
TOL = 1e-10
# local Krylov solves of tdvp_ps2 are only converged to ~1e-6 |v| each (expm_krylov stopping rule, C18 contract);
# a step of an n-site chain does at most 8 n local solves and the exact propagation is unitary (errors add, no growth)
KRYLOV_TOL = 1e-6

OFS_NAMES = ["ofs_s", "ofs_d", "ofs_ds", "ofs_debug"]


# ------------------------------------------------------------------------------------------------ helpers
def _rng(seed, *tags):
    return np.random.default_rng([int(seed)] + [sum(map(ord, str(t))) * 7 + len(str(t)) for t in tags])


def amax(x):
    x = np.asarray(x)
    return float(np.abs(x).max()) if x.size else 0.0


def close(x, y, scale=None, tol=TOL):
    x, y = np.asarray(x), np.asarray(y)
    if x.shape != y.shape:
        return False
    sc = max(1.0, amax(x), amax(y)) if scale is None else scale
    return bool(np.all(np.abs(x - y) <= tol * sc))


def jarr(a):
    return np.asarray(a).tolist()


def exc_info(ex):
    """where an exception of the code under test was raised: (fields, passes through Mpo.try_swap_site)"""
    import linecache
    import traceback
    frames = traceback.extract_tb(ex.__traceback__)
    last = frames[-1] if frames else None
    line = (last.line or linecache.getline(last.filename, last.lineno)).strip() if last else ""
    f = {"exception": type(ex).__name__, "raised_in": last.name if last else "", "statement": line[:160]}
    return f, any(fr.name == "try_swap_site" for fr in frames)


def report_exception(led, ex, default_oid, default_fn, key, fields, rep, via):
    """a crash of the real code inside the contract's domain is a totality violation; crashes that pass through
    Mpo.try_swap_site are attributed to it (one obligation id for every call site)"""
    ef, through = exc_info(ex)
    what = f"raised {type(ex).__name__}: {str(ex)[:160]} at `{ef['statement']}` in {ef['raised_in']}"
    if through:
        led.check(False, "total:Mpo.try_swap_site:no_exception", "Mpo.try_swap_site", what, key, dict(fields, via=via, **ef), rep)
    else:
        led.check(False, default_oid, default_fn, what, key, dict(fields, via=via, **ef), rep)


def ofs_enum(name):
    from renormalizer.utils import OFS
    return None if name in (None, "none") else getattr(OFS, name)


def build_model(family, n, rng):
    """(model, sectors, info).  qc_* families: n spin orbitals = 2 * (n // 2) spatial orbitals."""
    from renormalizer.model import Model, h_qc
    if family in ("qc_short", "qc_long", "qc_noqn"):
        k = n // 2
        h, e = F.physical_integrals(k, rng)
        sh, aseri = h_qc.int_to_h(h, e)
        basis, terms = h_qc.qc_model(sh, aseri, conserve_qn=(family != "qc_noqn"))
        if family == "qc_long":
            terms = F.long_names(terms)
        model = Model(basis, terms)
        na = [(1, 1), (1, 0)] if k == 1 else ([(1, 1), (2, 1)] if k == 2 else [(2, 1), (1, 1), (2, 2)])
        if family == "qc_noqn":
            na = [(0,)]         # no conserved particle numbers: one trivial sector, the occupation cannot be read from the labels
        info = {"fermi": True, "symbols": "long" if family == "qc_long" else "short", "sh": sh, "aseri": aseri, "h": h, "eri": e}
        return model, [list(x) for x in na], info
    model, sectors, _ = F.hermitian_model(family, n, rng)
    return model, sectors, {"fermi": False, "symbols": None}


def dense_reference(model, info, order=None):
    """independent dense Hamiltonian of the model's terms with the sites in `order` (None = original)"""
    if info["fermi"]:
        n = len(model.basis)
        pos = None if order is None else [list(order).index(p) for p in range(n)]
        return F.ref_spin_orbital(info["sh"], info["aseri"], pos)
    if order is None:
        return np.real_if_close(U.dense_terms(model, model.ham_terms))
    from renormalizer.model import Model
    nm = Model([model.basis[o] for o in order], model.ham_terms)
    return np.real_if_close(U.dense_terms(nm, nm.ham_terms))


def transposition(n, i):
    loc = list(range(n))
    loc[i], loc[i + 1] = loc[i + 1], loc[i]
    return loc


def swap_matrix(dims, i, fermi_sign):
    """adjacent exchange of positions i, i+1 on the current site dimensions; with the fermionic sign if requested"""
    n = len(dims)
    if fermi_sign:
        return F.adjacent_fswap(n, i)
    return F.site_perm_matrix(dims, transposition(n, i))


def reorder_matrix(dims0, order, fermi_sign):
    if fermi_sign:
        return F.fermi_perm_matrix(len(dims0), order)
    return F.site_perm_matrix(dims0, order)


def fresh_state(model, q, m, rng, complex_=False):
    st = U.make_state(model, q, m, rng, complex_=False)
    if st is None:
        return None
    return st.to_complex() if complex_ else st


def swapped_model(model, basis):
    from renormalizer.model import Model
    return Model(list(basis), model.ham_terms)


def base_fields(family, info, jw):
    return {"model": family, "symbols": info["symbols"], "swap_jw": bool(jw)}


# ------------------------------------------------------------------------------------------------ part 1: Jordan-Wigner
def mpo_dense_of(basis, terms, stacked):
    from renormalizer.model import Model
    from renormalizer.mps import Mpo
    if stacked:
        mpos = [Mpo(Model(basis, t)) for t in terms]
        return sum((S.dense(m) for m in mpos), np.zeros((2 ** len(basis),) * 2)), mpos
    m = Mpo(Model(basis, terms))
    return S.dense(m), [m]


def contract_integrals(led, h, e, key, rep, tier, with_noqn=True):
    """all Part-1 clauses for one pair of spatial integral tensors"""
    from renormalizer.model import h_qc
    from renormalizer.model.basis import BasisHalfSpin
    k = len(h)
    n = 2 * k
    fields = {"norb": k}
    try:
        sh, aseri = h_qc.int_to_h(h, e)
    except Exception as ex:
        led.check(False, "total:int_to_h:no_exception", "int_to_h", f"raised {type(ex).__name__}: {ex}", key, fields, rep)
        return
    R = F.ref_spatial(h, e)
    R2 = F.ref_spin_orbital(sh, aseri)
    scale = max(1.0, amax(R))
    nontriv = bool(np.any(e != 0))
    led.check(close(R2, R, scale), "post:int_to_h:spin_orbital_hamiltonian", "int_to_h",
              f"sum sh a+a + sum aseri a+a+aa differs from the spatial-integral Hamiltonian by {amax(R2 - R):.3e}", key, fields, rep, nontriv)
    led.check(sh.shape == (n, n) and aseri.shape == (n,) * 4, "post:int_to_h:shapes", "int_to_h", f"shapes {sh.shape} {aseri.shape}",
              key + ("shape",), fields, rep, nontriv)
    Na, Nb = F.number_ops(n)
    dense = {}
    for stacked in (False, True):
        for qn in ((True, False) if with_noqn else (True,)):
            var = ("stacked" if stacked else "flat", "qn" if qn else "noqn")
            vf = dict(fields, stacked=stacked, conserve_qn=qn)
            vrep = dict(rep, stacked=stacked, conserve_qn=qn)
            vkey = key + var
            try:
                basis, terms = h_qc.qc_model(sh, aseri, stacked=stacked, conserve_qn=qn)
                D, mpos = mpo_dense_of(basis, terms, stacked)
            except Exception as ex:
                led.check(False, "total:qc_model:no_exception", "qc_model", f"raised {type(ex).__name__}: {ex}", vkey, vf, vrep, nontriv)
                continue
            dense[var] = D
            led.check(close(D, R2, scale), "post:qc_model:fermionic_matrix", "qc_model",
                      f"dense(Mpo(qc_model(sh, aseri))) differs from the anticommuting-operator Hamiltonian by {amax(D - R2):.3e} (scale {scale:.2f})",
                      vkey, vf, vrep, nontriv)
            led.check(close(D, R, scale), "post:qc_model:equals_second_quantised_hamiltonian", "qc_model",
                      f"Jordan-Wigner model of int_to_h(h, eri) differs from sum h a+a + 1/2 sum (pq|rs) a+a+aa by {amax(D - R):.3e}",
                      vkey + ("top",), vf, vrep, nontriv)
            led.check(close(D, D.conj().T, scale), "post:qc_model:hermitian", "qc_model", f"|H - H^+| = {amax(D - D.conj().T):.3e}",
                      vkey + ("herm",), vf, vrep, nontriv)
            ca, cb = amax(D @ Na - Na @ D), amax(D @ Nb - Nb @ D)
            led.check(ca <= TOL * scale * n and cb <= TOL * scale * n, "post:qc_model:conserves_n_alpha_n_beta", "qc_model",
                      f"|[H, N_alpha]| = {ca:.3e}, |[H, N_beta]| = {cb:.3e}", vkey + ("comm",), vf, vrep, nontriv)
            okb = len(basis) == n and all(isinstance(b, BasisHalfSpin) and b.dofs[0] == i for i, b in enumerate(basis))
            led.check(okb, "post:qc_model:basis_orbital_order", "qc_model", "basis is not one BasisHalfSpin per spin orbital in index order",
                      vkey + ("basis",), vf, vrep, nontriv)
            if qn and okb:
                from renormalizer.model import Model
                ch = S.config_charges(Model(basis, []))
                occ = F.occupations(n)
                want = np.stack([occ[:, 0::2].sum(axis=1), occ[:, 1::2].sum(axis=1)], axis=1)
                led.check(ch.shape == want.shape and np.array_equal(ch, want), "post:qc_model:sigmaqn_counts_alpha_beta", "qc_model",
                          "site labels do not count (N_alpha, N_beta)", vkey + ("sigmaqn",), vf, vrep, nontriv)
                for m in mpos:
                    v = S.qnv_violations(m)
                    led.check(not v and np.all(np.asarray(m.qntot) == 0), "post:qc_model:number_conserving_labels", "qc_model",
                              f"MPO of the generated terms is not label-valid with zero total charge: {v[:1]} qntot={m.qntot}",
                              vkey + ("qnv",), vf, vrep, nontriv)
    ref_var = ("flat", "qn")
    if ref_var in dense:
        for var, D in dense.items():
            if var != ref_var:
                led.check(close(D, dense[ref_var], scale), "post:qc_model:variants_agree", "qc_model",
                          f"{var} differs from flat/qn by {amax(D - dense[ref_var]):.3e}", key + var + ("agree",),
                          dict(fields, stacked=var[0] == "stacked", conserve_qn=var[1] == "qn"), rep, nontriv)


def worker_jw(case, led):
    _, k, kind, idx, seed, tier = case
    rng = _rng(seed, "jw", k, kind, idx)
    h, e = F.integrals(k, kind, rng)
    if not np.any(h) and not np.any(e):
        e[(0,) * 4] = 0.5       # the zero operator is outside the domain (Model refuses an empty term list)
    rep = {"norb": k, "kind": kind, "h": jarr(h), "eri": jarr(e),
           "rng": f"props.C17._rng({seed}, 'jw', {k}, '{kind}', {idx})", "seed": seed,
           "how": "sh, aseri = h_qc.int_to_h(h, eri); basis, terms = h_qc.qc_model(sh, aseri, stacked, conserve_qn); compare "
                  "vk.specs.chain.dense(Mpo(Model(basis, terms))) with vk.specs.c17.ref_spatial(h, eri)"}
    contract_integrals(led, h, e, ("jw", k, kind, idx), rep, tier)


def worker_jwpat(case, led):
    """exhaustive sparsity patterns over the symmetry-unique integral entries (values from {1, -1, 0.5})"""
    _, k, start, stop, seed, tier = case
    nbits = len(F.unique_h(k)) + len(F.unique_eri(k))
    for pat in range(start, stop):
        if pat == 0:
            continue
        bits = [(pat >> b) & 1 for b in range(nbits)]
        rng = _rng(seed, "jwpat", k, pat)
        h, e = F.integrals(k, "pattern", rng, bits)
        rep = {"norb": k, "pattern_bits_over_unique_entries": bits, "unique_h": F.unique_h(k), "unique_eri": F.unique_eri(k),
               "h": jarr(h), "eri": jarr(e), "seed": seed}
        contract_integrals(led, h, e, ("jwpat", k, pat), rep, tier, with_noqn=(tier != "quick" or pat % 4 == 1))


def worker_raw(case, led):
    """qc_model on arbitrary coefficient tensors: every index ordering p?q, r?s reaches simplify_op's sign counting"""
    from renormalizer.model import h_qc
    _, n, conserving, idx, seed, tier = case
    rng = _rng(seed, "raw", n, conserving, idx)
    sh, g = F.raw_spin_tensors(n, rng, conserving)
    R = F.ref_spin_orbital(sh, g)
    scale = max(1.0, amax(R))
    fields = {"nsorb": n, "raw": True}
    rep = {"nsorb": n, "conserving": conserving, "h1e": jarr(sh), "h2e": jarr(g) if n <= 4 else "regenerate: vk.specs.c17.raw_spin_tensors(n, rng, conserving)",
           "rng": f"props.C17._rng({seed}, 'raw', {n}, {conserving}, {idx})", "seed": seed,
           "expected": "sum h1e[p,q] a+_p a_q + sum h2e[p,q,r,s] a+_p a+_q a_r a_s (vk.specs.c17.ref_spin_orbital)"}
    Ds = {}
    for stacked in (False, True):
        key = ("raw", n, conserving, idx, stacked)
        vf = dict(fields, stacked=stacked, conserve_qn=conserving)
        try:
            basis, terms = h_qc.qc_model(sh, g, stacked=stacked, conserve_qn=conserving)
            D, mpos = mpo_dense_of(basis, terms, stacked)
        except Exception as ex:
            led.check(False, "total:qc_model:no_exception", "qc_model", f"raised {type(ex).__name__}: {ex}", key, vf, rep)
            continue
        Ds[stacked] = D
        led.check(close(D, R, scale), "post:qc_model:fermionic_matrix", "qc_model",
                  f"arbitrary coefficient tensors: dense differs from the anticommuting-operator sum by {amax(D - R):.3e}", key, vf, rep, n >= 2)
        if conserving:
            for m in mpos:
                v = S.qnv_violations(m)
                led.check(not v, "post:qc_model:number_conserving_labels", "qc_model", f"labels invalid: {v[:1]}", key + ("qnv",), vf, rep, n >= 2)
    if len(Ds) == 2:
        led.check(close(Ds[0], Ds[1], scale), "post:qc_model:variants_agree", "qc_model", "stacked differs from flat",
                  ("raw", n, conserving, idx, "agree"), fields, rep, n >= 2)


def worker_ladder(case, led):
    """generate_ladder_operator and simplify_op against the Fock operators"""
    from renormalizer.model import Model, Op, h_qc
    from renormalizer.model.basis import BasisHalfSpin
    _, n, seed, tier = case
    rng = _rng(seed, "ladder", n)
    A = F.fock_annihilators(n)
    plain = Model([BasisHalfSpin(i) for i in range(n)], [])
    sq = [np.array([[0, 0], [1, 0]]) if i % 2 == 0 else np.array([[0, 0], [0, 1]]) for i in range(n)]
    labelled = Model([BasisHalfSpin(i, sigmaqn=sq[i]) for i in range(n)], [])
    a_ops, a_dag_ops = h_qc.generate_ladder_operator(n)
    led.check(len(a_ops) == n and len(a_dag_ops) == n, "post:generate_ladder_operator:count", "generate_ladder_operator", "wrong number of operators",
              ("ladder", n, "count"), {"nsorb": n}, {"nsorb": n})
    for j in range(min(n, len(a_ops))):
        for dag, op, ref in ((False, a_ops[j], A[j]), (True, a_dag_ops[j], A[j].T)):
            D = np.real_if_close(U.dense_terms(plain, [op]))
            led.check(close(D, ref), "post:generate_ladder_operator:fock_operator", "generate_ladder_operator",
                      f"{'a+' if dag else 'a'}_{j}: Jordan-Wigner string differs from the Fock-space operator by {amax(D - ref):.1f}",
                      ("ladder", n, j, dag), {"nsorb": n, "orbital": j, "dagger": dag}, {"nsorb": n, "orbital": j, "dagger": dag, "op": repr(op)}, n >= 2)
    nwords = 40 if tier == "quick" else 160
    for w in range(nwords):
        L = int(rng.integers(1, 5))
        word = [(int(rng.integers(n)), bool(rng.integers(2))) for _ in range(L)]
        ops = [a_dag_ops[p] if d else a_ops[p] for p, d in word]
        ref = np.eye(2 ** n)
        for p, d in word:
            ref = ref @ (A[p].T if d else A[p])
        raw = Op.product(ops)
        key = ("ladder", n, "word", tuple(word))
        rep = {"nsorb": n, "word": [("a+" if d else "a") + str(p) for p, d in word], "seed": seed}
        fields = {"nsorb": n, "length": L}
        for cq in (False, True):
            try:
                simp = h_qc.simplify_op(raw, n, conserve_qn=cq)
                D = np.real_if_close(U.dense_terms(plain, [simp]))
            except Exception as ex:
                led.check(False, "total:simplify_op:no_exception", "simplify_op", f"raised {type(ex).__name__}: {ex}", key + (cq,), fields, rep)
                continue
            led.check(close(D, ref), "post:simplify_op:same_operator", "simplify_op",
                      f"simplified word differs from the product of Fock operators by {amax(D - ref):.1f}", key + (cq,), fields, rep, L >= 2)
            syms = simp.split_symbol
            perdof = {}
            for s_, d_ in zip(syms, simp.dofs):
                perdof.setdefault(d_, []).append(s_)
            led.check(all(v.count("Z") <= 1 and (v.count("Z") == 0 or v[0] == "Z") for v in perdof.values()),
                      "post:simplify_op:at_most_one_leading_z", "simplify_op", f"symbols per orbital {perdof}", key + (cq, "z"), fields, rep, L >= 2)
            if cq:
                # assigned labels = charge actually carried: row charge - column charge on every non-zero entry
                ch = S.config_charges(labelled)
                rr, cc = np.nonzero(np.abs(D) > 0)
                tot = np.sum(np.array(simp.qn_list).reshape(len(syms), -1), axis=0)
                ok = all(np.array_equal(ch[r] - ch[c], tot) for r, c in zip(rr, cc))
                led.check(ok, "post:simplify_op:labels_are_charges", "simplify_op", f"declared total charge {tot.tolist()} is not the charge moved by the operator",
                          key + ("qn",), fields, rep, L >= 2 and len(rr) > 0)


# ------------------------------------------------------------------------------------------------ part 2: try_swap_site
def check_operator_after_swap(led, mpo, D0, D1, dims, i, jw, key, fields, rep, via, nontriv=True, extra=""):
    scale = max(1.0, amax(D0))
    if jw:
        T = swap_matrix(dims, i, True)
        ok = close(D1, T @ D0 @ T.T, scale)
        oid, what = "post:Mpo.try_swap_site:fermionic_reorder", \
            f"swap_jw=True at sites ({i},{i + 1}): operator differs from F H F^T (F = exchange with sign -1 on |11>) by {amax(D1 - T @ D0 @ T.T):.3e}"
        if not ok:
            Tp = swap_matrix(dims, i, False)
            what += f"; it differs from the plain permutation P H P^T by {amax(D1 - Tp @ D0 @ Tp.T):.3e}"
    else:
        T = swap_matrix(dims, i, False)
        ok = close(D1, T @ D0 @ T.T, scale)
        oid, what = "post:Mpo.try_swap_site:permuted_operator", \
            f"swap_jw=False at sites ({i},{i + 1}): operator differs from P H P^T by {amax(D1 - T @ D0 @ T.T):.3e}"
    led.check(ok, oid, "Mpo.try_swap_site", what + extra, key, dict(fields, via=via), rep, nontriv)
    return ok


def worker_swap(case, led):
    from renormalizer.mps import Mpo
    _, family, n, jw, seed, tier = case
    # "<family>@qr": operator built and exchanged with the QR algorithm (the closing factor of a swap is not 1 there) instead of the default graph algorithm
    akw = {}
    if family.endswith("@qr"):
        family, akw = family[:-3], {"algo": "qr"}
    rng = _rng(seed, "swap", family, n)
    model, sectors, info = build_model(family, n, rng)
    ref_dofs = [b.dofs[0] for b in model.basis]
    dims0 = [b.nbas for b in model.basis]
    fields = base_fields(family, info, jw)
    H0 = dense_reference(model, info)
    scale = max(1.0, amax(H0))
    w0 = np.linalg.eigvalsh(H0)
    base_rep = {"model": family, "nsites": n, "swap_jw": jw, "seed": seed, "rng": f"props.C17._rng({seed}, 'swap', '{family}', {n})",
                "how": "model = props.C17.build_model(family, n, rng)[0]; mpo = Mpo(model); for i in sequence: swap basis[i], basis[i+1]; "
                       "mpo.try_swap_site(Model(basis, model.ham_terms), swap_jw); compare vk.specs.chain.dense(mpo) before/after"}
    if info["fermi"]:
        base_rep.update(h=jarr(info["h"]), eri=jarr(info["eri"]))
    else:
        base_rep.update(terms=[repr(t) for t in model.ham_terms])
    m0 = Mpo(model, **akw)
    if not close(S.dense(m0), H0, scale):
        raise RuntimeError("premise: dense(Mpo(model)) differs from the independent dense Hamiltonian (Part 1 / C03 territory)")
    # no-op call
    keep = S.dense(m0)
    m0.try_swap_site(swapped_model(model, model.basis), jw, **akw)
    led.check(close(S.dense(m0), keep, scale), "post:Mpo.try_swap_site:noop_for_same_order", "Mpo.try_swap_site", "operator changed although the order is the same",
              ("swap", family, n, jw, "noop"), fields, base_rep, False)
    seqs = [s for L in (1, 2, 3) for s in itertools.product(range(n - 1), repeat=L)]
    limit = (24 if tier == "quick" else 400) if n > 4 else len(seqs)
    if len(seqs) > limit:
        sel = list(range(n - 1)) + sorted(rng.choice(np.arange(n - 1, len(seqs)), size=limit - (n - 1), replace=False).tolist())
        seqs = [seqs[j] for j in sel]
    for seq in seqs:
        mpo = Mpo(model, **akw)
        basis = list(model.basis)
        D_prev = H0
        key = ("swap", family, n, jw, seq)
        rep = dict(base_rep, sequence=list(seq))
        failed = False
        for step, i in enumerate(seq):
            dims = [b.nbas for b in basis]
            basis = list(basis)
            basis[i], basis[i + 1] = basis[i + 1], basis[i]
            nm = swapped_model(model, basis)
            before_arrays = [np.array(np.asarray(mpo[j].array)) for j in range(n)]
            before_qn = [np.array(q) for q in mpo.qn]
            try:
                mpo.try_swap_site(nm, jw, **akw)
            except Exception as ex:
                report_exception(led, ex, "total:Mpo.try_swap_site:no_exception", "Mpo.try_swap_site", key + (step,), fields, rep, "direct")
                failed = True
                break
            last = step == len(seq) - 1
            D1 = S.dense(mpo)
            if last:      # prefixes are sequences of their own: each (sequence, clause) is evaluated once
                check_operator_after_swap(led, mpo, D_prev, D1, dims, i, jw, key, fields, rep, "direct")
                same = all(np.array_equal(np.asarray(mpo[j].array), before_arrays[j]) for j in range(n) if j not in (i, i + 1)) and \
                    all(np.array_equal(np.asarray(mpo.qn[j]), before_qn[j]) for j in range(n + 1) if j != i + 1)
                led.check(same, "frame:Mpo.try_swap_site:only_two_sites_and_one_bond", "Mpo.try_swap_site",
                          "a site tensor or bond label outside {i, i+1} / bond i+1 changed", key + ("frame",), fields, rep)
                led.check(mpo.model is nm and F.order_of(mpo.model, ref_dofs) == F.order_of(basis, ref_dofs), "post:Mpo.try_swap_site:model_updated",
                          "Mpo.try_swap_site", "mpo.model is not the new model", key + ("model",), fields, rep)
            D_prev = D1
        if failed:
            continue
        order = F.order_of(basis, ref_dofs)
        moved = order != list(range(n))
        v = S.qnv_violations(mpo)
        led.check(not v, "post:Mpo.try_swap_site:qn_valid", "Mpo.try_swap_site", f"labels invalid after the swaps: {v[:1]}", key + ("qnv",), fields, rep, moved)
        # the re-ordered operator is still an ordinary operator: label arrays keep their representation and it acts on a state of the new order
        qs = len(np.asarray(mpo.qntot).reshape(-1))
        badq = [j for j, q in enumerate(mpo.qn) if not (isinstance(q, np.ndarray) and q.ndim == 2 and q.shape == (mpo.bond_dims[j], qs))]
        led.check(not badq, "post:Mpo.try_swap_site:bond_labels_stay_arrays", "Mpo.try_swap_site",
                  f"bond labels {badq} are not (bond dimension x {qs}) integer arrays after the swaps: {[type(mpo.qn[j]).__name__ for j in badq]}", key + ("qnrep",), fields, rep, moved)
        if moved and len(seq) <= 2:
            try:
                nmodel = mpo.model
                qsel = sectors[int(rng.integers(len(sectors)))]
                psi = fresh_state(nmodel, qsel, 3, rng)
                if psi is not None:
                    r = mpo.apply(psi)
                    ok = close(S.dense(r), D_prev @ S.dense(psi), scale * max(1.0, amax(S.dense(psi)))) and not S.qnv_violations(r)
                    led.check(ok, "post:Mpo.try_swap_site:reordered_operator_acts_on_states", "Mpo.apply",
                              f"(re-ordered H) psi differs from the dense product or is mislabelled: {S.qnv_violations(r)[:1]}", key + ("apply",), dict(fields, via="apply"), rep)
            except Exception as ex:
                led.check(False, "post:Mpo.try_swap_site:reordered_operator_acts_on_states", "Mpo.apply",
                          f"applying the re-ordered operator to a state raised {type(ex).__name__}: {ex}", key + ("apply",), dict(fields, via="apply", error=type(ex).__name__), rep)
        w1 = np.linalg.eigvalsh((D_prev + D_prev.conj().T) / 2)
        led.check(close(D_prev, D_prev.conj().T, scale) and close(w1, w0, scale), "post:Mpo.try_swap_site:spectrum_unchanged", "Mpo.try_swap_site",
                  f"spectrum moved by {amax(w1 - w0):.3e} (or the operator stopped being Hermitian)", key + ("spec",), fields, rep, moved)
        # absolute references for the whole sequence (path independent)
        if jw:
            Rf = dense_reference(model, info, order)
            led.check(close(D_prev, Rf, scale), "post:Mpo.try_swap_site:fermionic_reorder", "Mpo.try_swap_site",
                      f"after swaps {list(seq)} (swap_jw=True) the operator differs from the fermionic Hamiltonian written in orbital order {order} by "
                      f"{amax(D_prev - Rf):.3e}", key + ("abs",), dict(fields, via="direct"), rep, moved)
        else:
            P = reorder_matrix(dims0, order, False)
            led.check(close(D_prev, P @ H0 @ P.T, scale), "post:Mpo.try_swap_site:permuted_operator", "Mpo.try_swap_site",
                      f"after swaps {list(seq)} the operator differs from P H P^T for the accumulated permutation {order} by {amax(D_prev - P @ H0 @ P.T):.3e}",
                      key + ("abs",), dict(fields, via="direct"), rep, moved)
            if not info["fermi"]:
                Rt = dense_reference(model, info, order)
                led.check(close(D_prev, Rt, scale), "post:Mpo.try_swap_site:equals_terms_in_new_order", "Mpo.try_swap_site",
                          f"differs from the dense sum of the terms with sites ordered {order} by {amax(D_prev - Rt):.3e}", key + ("terms",), fields, rep, moved)


# ------------------------------------------------------------------------------------------------ part 3: one OFS step
def worker_step(case, led):
    """_update_mps (OFS branch) followed by try_swap_site, called the way single_sweep / tdvp_ps2 call them, with the current
    two-site tensor as the 'optimised' tensor: the only admissible effects are the exchange and the rank-M truncation."""
    from renormalizer.mps import Mpo, MpDm
    from renormalizer.utils import CompressConfig, CompressCriteria
    _, family, n, ofs_name, jw, mtag, mpdm, seed, tier = case
    rng = _rng(seed, "step", family, n, mtag, mpdm)
    model, sectors, info = build_model(family, n, rng)
    ref_dofs = [b.dofs[0] for b in model.basis]
    dims0 = [b.nbas for b in model.basis]
    fields = dict(base_fields(family, info, jw), ofs=ofs_name)
    q = sectors[int(rng.integers(len(sectors)))]
    M0, M = (16, 64) if mtag == "full" else ((6, 2) if rng.random() < 0.5 else (6, 3))
    mps = fresh_state(model, q, M0, rng)
    if mps is None:
        return
    if mpdm:
        mps = MpDm.from_mps(mps)
    mpo = Mpo(model)
    mps.compress_config = CompressConfig(CompressCriteria.fixed, max_bonddim=M, ofs=ofs_enum(ofs_name), ofs_swap_jw=jw)
    mps.ensure_left_canonical()
    rep0 = {"model": family, "nsites": n, "ofs": ofs_name, "swap_jw": jw, "sector": q, "M_initial": M0, "M": M, "mpdm": mpdm, "seed": seed,
            "rng": f"props.C17._rng({seed}, 'step', '{family}', {n}, '{mtag}', {mpdm})",
            "how": "props.C17.worker_step: per bond, cstruct = tensordot(mps[c0], mps[c1]); mps._update_mps(cstruct, cidx, *mps._get_big_qn(cidx)[:2], 0); "
                   "mpo.try_swap_site(mps.model, swap_jw); compare dense state / operator before and after"}
    nsweeps = 2
    micro = 0
    for isw in range(nsweeps):
        for imps in list(mps.iter_idx_list(full=True)):
            if (mps.to_right and imps == n - 1) or ((not mps.to_right) and imps == 0):
                break
            cidx = [imps, imps + 1] if mps.to_right else [imps - 1, imps]
            micro += 1
            key = ("step", family, n, ofs_name, jw, mtag, mpdm, isw, tuple(cidx))
            order0 = F.order_of(mps.model, ref_dofs)
            dims = [dims0[o] for o in order0]
            before = S.dense(mps)
            H_before = S.dense(mpo)
            scale = max(1.0, amax(H_before))
            qnbigl, qnbigr, _ = mps._get_big_qn(cidx)
            cstruct = np.tensordot(np.asarray(mps[cidx[0]].array), np.asarray(mps[cidx[1]].array), axes=1)
            rep = dict(rep0, sweep=isw, cidx=cidx, order_before=order0)
            cstruct_before = cstruct.copy()
            # the ground-state sweep hands the SAME two-site array to _update_mps twice (snapshot of the best bond, then the working state): the call must
            # neither modify its argument nor depend on having been called before
            snap = mps.copy()
            snap.compress_config = mps.compress_config
            try:
                snap._update_mps(cstruct, cidx, qnbigl, qnbigr, 0)
                led.check(np.array_equal(cstruct, cstruct_before), "frame:MatrixProduct._update_mps:two_site_array_argument_unchanged", "MatrixProduct._update_mps",
                          f"the caller's two-site wavefunction changed by {np.abs(cstruct - cstruct_before).max():.3e} during the call", key + ("argframe",), fields, rep)
                cstruct = cstruct_before.copy()
            except Exception as ex:
                report_exception(led, ex, "total:MatrixProduct._update_mps:ofs_no_exception", "MatrixProduct._update_mps", key, fields, rep, "ofs_step")
                return
            try:
                mps._update_mps(cstruct, cidx, qnbigl, qnbigr, 0)
            except Exception as ex:
                report_exception(led, ex, "total:MatrixProduct._update_mps:ofs_no_exception", "MatrixProduct._update_mps", key, fields, rep, "ofs_step")
                return
            order1 = F.order_of(mps.model, ref_dofs)
            swapped = order1 != order0
            want1 = list(order0)
            want1[cidx[0]], want1[cidx[1]] = want1[cidx[1]], want1[cidx[0]]
            led.check(order1 in (order0, want1), "post:MatrixProduct._update_mps:ofs_only_the_active_pair_moves", "MatrixProduct._update_mps",
                      f"order {order0} -> {order1} at active sites {cidx}", key + ("pair",), fields, rep, swapped)
            if order1 not in (order0, want1):
                return
            try:
                mpo.try_swap_site(mps.model, jw)
            except Exception as ex:
                report_exception(led, ex, "total:Mpo.try_swap_site:no_exception", "Mpo.try_swap_site", key, fields, rep, "ofs_step")
                return
            led.check(F.order_of(mpo.model, ref_dofs) == order1, "post:Mpo.try_swap_site:model_updated", "Mpo.try_swap_site",
                      "operator and state disagree on the site order", key + ("orders",), dict(fields, via="ofs_step"), rep, swapped)
            T = swap_matrix(dims, cidx[0], jw)
            dimsT = [dims[j] for j in transposition(n, cidx[0])]
            after = S.dense(mps)
            H_after = S.dense(mpo)
            # ---- decision and truncation (pure states only: Schmidt values of the dense vector across the active bond)
            loss_sel = 0.0
            if not mpdm:
                s1 = F.schmidt_values(before, dims, cidx[1])
                s2 = F.schmidt_values(T @ before, dimsT, cidx[1])
                l1, l2 = float((s1[M:] ** 2).sum()), float((s2[M:] ** 2).sum())
                e1, e2 = F.entropy(s1), F.entropy(s2)
                loss_sel = l2 if swapped else l1
                margin = 1e-7
                pref_s = -1 if e1 < e2 - margin else (1 if e2 < e1 - margin else 0)      # +1: the exchanged order is strictly better
                pref_d = -1 if l1 < l2 - margin * max(l1, l2, 1e-3) else (1 if l2 < l1 - margin * max(l1, l2, 1e-3) else 0)
                if ofs_name == "ofs_debug":
                    ok, why = not swapped, "dry-run criterion exchanged the sites"
                elif ofs_name == "ofs_s":
                    ok = pref_s == 0 or swapped == (pref_s > 0)
                    why = f"entropy criterion: S(keep)={e1:.6f}, S(exchange)={e2:.6f}, exchanged={swapped}"
                elif ofs_name == "ofs_d":
                    ok = pref_d == 0 or swapped == (pref_d > 0)
                    why = f"discarded-weight criterion: loss(keep)={l1:.3e}, loss(exchange)={l2:.3e}, exchanged={swapped}"
                else:   # hybrid, as documented in _update_mps: the discarded weight decides unless both weights vanish (< 1e-10), then the entropy decides;
                    # a tie of the deciding measure admits either order (the other measure is NOT consulted), and so does a weight within rounding of 1e-10
                    both_zero = l1 < 1e-10 and l2 < 1e-10
                    near_thr = any(0.5e-10 < l < 2e-10 for l in (l1, l2))
                    pref = pref_s if both_zero else pref_d
                    ok = near_thr or pref == 0 or swapped == (pref > 0)
                    why = f"hybrid criterion ({'entropy' if both_zero else 'discarded weight'} decides): S {e1:.6f}/{e2:.6f}, loss {l1:.3e}/{l2:.3e}, exchanged={swapped}"
                led.check(ok, "post:MatrixProduct._update_mps:ofs_decision", "MatrixProduct._update_mps", why, key + ("decision",), fields,
                          dict(rep, entropy=[e1, e2], loss=[l1, l2]), (pref_s != 0 or pref_d != 0))
                led.check(mps.bond_dims[cidx[1]] <= M, "post:MatrixProduct._update_mps:ofs_bond_limit", "MatrixProduct._update_mps",
                          f"bond {mps.bond_dims[cidx[1]]} > M={M}", key + ("M",), fields, rep, swapped)
            # ---- state
            if mpdm:
                target = T @ before @ T.T if swapped else before
            else:
                target = T @ before if swapped else before
            err2 = float(np.linalg.norm(after - target) ** 2)
            nrm2 = float(np.linalg.norm(before) ** 2)
            led.check(err2 <= loss_sel * (1 + 1e-6) + TOL * nrm2, "post:MatrixProduct._update_mps:ofs_state", "MatrixProduct._update_mps",
                      f"|state' - {'X' if swapped else '1'} state|^2 = {err2:.3e} exceeds the discarded weight {loss_sel:.3e} "
                      f"(X = site exchange{' with fermionic sign' if jw else ''}, exchanged={swapped})", key + ("state",), fields, rep, swapped)
            v = S.qnv_violations(mps)
            led.check(not v, "post:MatrixProduct._update_mps:ofs_qn_valid", "MatrixProduct._update_mps", f"labels invalid: {v[:1]}", key + ("qnv",), fields, rep, swapped)
            # ---- operator
            if swapped:
                extra = "" if mpdm else (f"; consequence: <psi|H|psi> = {np.vdot(before, H_before @ before).real:.8f} before and "
                                         f"{np.vdot(after, H_after @ after).real:.8f} after this exchange step")
                op_ok = check_operator_after_swap(led, mpo, H_before, H_after, dims, cidx[0], jw, key + ("op",), fields, rep, "ofs_step", extra=extra)
            else:
                op_ok = led.check(close(H_after, H_before, scale), "post:Mpo.try_swap_site:noop_for_same_order", "Mpo.try_swap_site",
                                  "operator changed without a swap", key + ("op",), fields, rep, False)
            if not op_ok:
                return      # root cause reported; the remaining clauses of this run presuppose a correctly re-ordered operator
            # ---- energy seen by the sweep
            if not mpdm and loss_sel <= 1e-24:
                e_b = np.vdot(before, H_before @ before).real
                e_a = np.vdot(after, H_after @ after).real
                led.check(abs(e_a - e_b) <= TOL * scale * max(1.0, nrm2) * 10, "post:Mpo.try_swap_site:energy_consistent_with_state_swap", "Mpo.try_swap_site",
                          f"<psi|H|psi> changed from {e_b:.10f} to {e_a:.10f} across an exchange step (swap_jw={jw}, exchanged={swapped})",
                          key + ("energy",), dict(fields, via="ofs_step"), rep, swapped)
        mps._switch_direction()


# ------------------------------------------------------------------------------------------------ part 4: evolve
def worker_evolve(case, led):
    import scipy.linalg
    from renormalizer.mps import Mpo
    from renormalizer.utils import CompressConfig, CompressCriteria, EvolveConfig, EvolveMethod
    _, family, n, ofs_name, jw, seed, tier = case
    rng = _rng(seed, "evolve", family, n)
    model, sectors, info = build_model(family, n, rng)
    ref_dofs = [b.dofs[0] for b in model.basis]
    dims0 = [b.nbas for b in model.basis]
    fields = dict(base_fields(family, info, jw), ofs=ofs_name)
    q = sectors[int(rng.integers(len(sectors)))]
    M = 128          # >= every Schmidt rank of these chains: the projector-splitting integrator is then exact up to the local solver
    psi = fresh_state(model, q, M, rng, complex_=True)
    if psi is None:
        return
    H0 = dense_reference(model, info)
    scale = max(1.0, amax(H0))
    nsteps = 3
    dt = float(rng.uniform(0.15, 0.35)) / max(1.0, np.linalg.norm(H0, 2)) * 4
    psi0 = S.dense(psi)
    rep = {"model": family, "nsites": n, "ofs": ofs_name, "swap_jw": jw, "sector": q, "dt": dt, "nsteps": nsteps, "M": M, "seed": seed,
           "rng": f"props.C17._rng({seed}, 'evolve', '{family}', {n})",
           "how": "mps.evolve_config = EvolveConfig(EvolveMethod.tdvp_ps2); mps.compress_config = CompressConfig(fixed, max_bonddim=M, ofs=..., ofs_swap_jw=...); "
                  "mps = mps.evolve(mpo, dt) x nsteps; compare vk.specs.chain.dense(mps) with X expm(-i H t) psi0, X = recorded site permutation"}
    tol_state = KRYLOV_TOL * 8 * n * nsteps

    def run(ofs):
        mps = psi.copy()
        mpo = Mpo(model)
        mps.evolve_config = EvolveConfig(EvolveMethod.tdvp_ps2)
        mps.compress_config = CompressConfig(CompressCriteria.fixed, max_bonddim=M, ofs=ofs, ofs_swap_jw=jw)
        orders = [F.order_of(mps.model, ref_dofs)]
        for _ in range(nsteps):
            mps = mps.evolve(mpo, dt)
            orders.append(F.order_of(mps.model, ref_dofs))
        return mps, mpo, orders

    exact = scipy.linalg.expm(-1j * H0 * dt * nsteps) @ psi0
    base, base_mpo, _ = run(None)
    if amax(S.dense(base) - exact) > tol_state:
        raise RuntimeError(f"premise: tdvp_ps2 at full bond dimension deviates from expm by {amax(S.dense(base) - exact):.3e} without OFS (C09 territory)")
    key = ("evolve", family, n, ofs_name, jw)
    try:
        mps, mpo, orders = run(ofs_enum(ofs_name))
    except Exception as ex:
        report_exception(led, ex, "total:Mps.evolve:ofs_no_exception", "Mps.evolve", key, fields, rep, "evolve")
        return
    order = orders[-1]
    moved = any(o != orders[0] for o in orders)
    rep = dict(rep, orders=orders)
    led.check(F.order_of(mpo.model, ref_dofs) == order, "post:Mps.evolve:ofs_orders_agree", "Mps.evolve", "state and operator disagree on the site order",
              key + ("orders",), fields, rep, moved)
    if ofs_name == "ofs_debug":
        led.check(not moved, "post:MatrixProduct._update_mps:ofs_decision", "MatrixProduct._update_mps", "dry-run criterion exchanged sites during evolve",
                  key + ("debug",), fields, rep, False)
    X = reorder_matrix(dims0, order, jw)
    v = S.dense(mps)
    H1 = S.dense(mpo)
    dH = amax(H1 - X @ H0 @ X.T)
    op_ok = led.check(dH <= TOL * scale, "post:Mpo.try_swap_site:fermionic_reorder" if jw else "post:Mpo.try_swap_site:permuted_operator", "Mpo.try_swap_site",
                      f"after evolve the (in-place re-ordered) operator differs from X H X^T by {dH:.3e}; final order {order}; consequence for this run: "
                      f"|state - X exp(-iHt) psi0| = {amax(v - X @ exact):.3e}", key + ("op",), dict(fields, via="evolve"), rep, moved)
    if not op_ok:
        return          # root cause reported; the state / energy clauses presuppose a correctly re-ordered operator
    d = amax(v - X @ exact)
    led.check(d <= tol_state, "post:Mps.evolve:ofs_state_equals_exact_reordered", "Mps.evolve",
              f"evolved state differs from X exp(-iHt) psi0 by {d:.3e} (tolerance {tol_state:.1e}; without OFS the same run deviates by "
              f"{amax(S.dense(base) - exact):.1e}); final order {order}, swap_jw={jw}", key + ("state",), fields, rep, moved)
    e0 = np.vdot(psi0, H0 @ psi0).real
    e1 = (np.vdot(v, H1 @ v) / np.vdot(v, v)).real
    led.check(abs(e1 - e0) <= 4 * tol_state * scale, "post:Mps.evolve:ofs_energy_conserved", "Mps.evolve",
              f"<H> went from {e0:.8f} to {e1:.8f} (measured with the re-ordered operator)", key + ("energy",), fields, rep, moved)
    qv = S.qnv_violations(mps)
    led.check(not qv, "post:Mps.evolve:ofs_qn_valid", "Mps.evolve", f"labels invalid: {qv[:1]}", key + ("qnv",), fields, rep, moved)
    led.obs.append({"part": "evolve", "model": family, "n": n, "ofs": ofs_name, "swap_jw": jw, "sites_exchanged": moved})


# ------------------------------------------------------------------------------------------------ part 5: optimize_mps
def worker_opt(case, led):
    from renormalizer.mps import Mpo
    from renormalizer.mps.gs import optimize_mps
    from renormalizer.utils import CompressConfig, CompressCriteria
    _, family, n, ofs_name, jw, regime, seed, tier = case
    rng = _rng(seed, "opt", family, n)
    model, sectors, info = build_model(family, n, rng)
    ref_dofs = [b.dofs[0] for b in model.basis]
    dims0 = [b.nbas for b in model.basis]
    fields = dict(base_fields(family, info, jw), ofs=ofs_name, regime=regime)
    q = sectors[int(rng.integers(len(sectors)))]
    Mfull = 128
    psi = fresh_state(model, q, Mfull, rng)
    if psi is None:
        return
    H0 = dense_reference(model, info)
    scale = max(1.0, amax(H0))
    mask = S.sector_mask(model, q)
    e0, gap, gs = F.sector_ground(H0, mask)
    if regime == "full":          # every bond complete from the start: each two-site problem is the full sector problem (exact)
        Ms, pcs = [Mfull] * 3, [0.2, 0, 0]
    elif regime == "trunc":       # early sweeps truncate (discarded-weight criterion active), later sweeps are unrestricted
        Ms, pcs = [2, 3, Mfull, Mfull, Mfull], [0.4, 0.2, 0.2, 0, 0]
    else:                         # "int": documented usage of the package tests: integer bond dimensions in the procedure
        Ms, pcs = [Mfull] * 3, [0.2, 0, 0]

    def run(ofs):
        mps = psi.copy()
        mpo = Mpo(model)
        mps.optimize_config.method = "2site"
        mps.compress_config = CompressConfig(CompressCriteria.fixed, max_bonddim=Mfull, ofs=ofs, ofs_swap_jw=jw)
        if regime == "int":
            mps.optimize_config.procedure = [[m, p] for m, p in zip(Ms, pcs)]
        else:
            mps.optimize_config.procedure = [[CompressConfig(CompressCriteria.fixed, max_bonddim=m, ofs=ofs, ofs_swap_jw=jw), p] for m, p in zip(Ms, pcs)]
        energies, res = optimize_mps(mps, mpo)
        return np.array(energies, dtype=float), res, mpo

    rep = {"model": family, "nsites": n, "ofs": ofs_name, "swap_jw": jw, "sector": q, "regime": regime, "bond_dims": Ms, "percent": pcs, "seed": seed,
           "rng": f"props.C17._rng({seed}, 'opt', '{family}', {n})", "exact_sector_ground_energy": float(e0), "gap": float(gap),
           "how": "procedure entries are CompressConfig(fixed, max_bonddim=M, ofs=..., ofs_swap_jw=...) objects (integer entries reset the configuration); "
                  "energies, res = optimize_mps(mps, mpo); compare with exact diagonalisation of the independent dense Hamiltonian on the sector"}
    tolE = 1e-9 * scale
    key = ("opt", family, n, ofs_name, jw, regime)
    if regime == "full":
        eb, resb, _ = run(None)
        if amax(eb - e0) > tolE:
            raise RuntimeError(f"premise: two-site DMRG at complete bond dimension misses the exact energy by {amax(eb - e0):.3e} without OFS (C08 territory)")
    try:
        en, res, mpo = run(ofs_enum(ofs_name))
    except Exception as ex:
        report_exception(led, ex, "total:optimize_mps:ofs_no_exception", "optimize_mps", key, fields, rep, "optimize_mps")
        return
    order = F.order_of(res.model, ref_dofs)
    moved = order != list(range(n))
    rep = dict(rep, energies=en.tolist(), final_order=order)
    if regime == "int":
        led.obs.append({"part": "optimize_mps", "procedure_entries": "int", "model": family, "n": n, "ofs": ofs_name, "swap_jw": jw, "sites_exchanged": moved,
                        "compress_config_ofs_after": str(res.compress_config.ofs)})
        led.ok("obs:optimize_mps:ofs_with_integer_procedure", "optimize_mps", key, nontrivial=False)
    # optimize_mps documents that the returned state is the copy stored in the middle of the last sweep: its order is res.model, while the
    # operator passed in keeps being re-ordered until the end of the sweep; each object is therefore held to its own recorded order
    order_mpo = F.order_of(mpo.model, ref_dofs)
    rep = dict(rep, final_order_of_operator=order_mpo)
    Xm = reorder_matrix(dims0, order_mpo, jw)
    Hm = S.dense(mpo)
    dH = amax(Hm - Xm @ H0 @ Xm.T)
    moved_m = order_mpo != list(range(n))
    op_ok = led.check(dH <= TOL * scale, "post:Mpo.try_swap_site:fermionic_reorder" if jw else "post:Mpo.try_swap_site:permuted_operator", "Mpo.try_swap_site",
                      f"after optimize_mps the (in-place re-ordered) operator differs from X H X^T by {dH:.3e}; operator order {order_mpo}", key + ("op",),
                      dict(fields, via="optimize_mps"), rep, moved_m)
    if not op_ok:
        return          # root cause reported; the state / energy clauses presuppose a correctly re-ordered operator
    w1 = np.linalg.eigvalsh((Hm + Hm.conj().T) / 2)
    led.check(close(w1, np.linalg.eigvalsh(H0), scale), "post:Mpo.try_swap_site:spectrum_unchanged", "Mpo.try_swap_site", "spectrum of the re-ordered operator changed",
              key + ("spec",), dict(fields, via="optimize_mps"), rep, moved_m)
    X = reorder_matrix(dims0, order, jw)
    H1 = X @ H0 @ X.T          # the Hamiltonian in the order recorded by the returned state (what Mpo(res.model) has to represent)
    led.check(bool(np.all(en >= e0 - tolE)), "post:optimize_mps:ofs_variational_bound", "optimize_mps",
              f"a sweep energy lies below the exact sector minimum: min(E) - E0 = {float(en.min() - e0):.3e}", key + ("bound",), fields, rep, moved)
    v = S.dense(res)
    ray = float((np.vdot(v, H1 @ v) / np.vdot(v, v)).real)
    led.check(ray >= e0 - tolE, "post:optimize_mps:ofs_rayleigh_bound", "optimize_mps", f"<res|H'|res> - E0 = {ray - e0:.3e}", key + ("ray",), fields, rep, moved)
    qv = S.qnv_violations(res)
    led.check(not qv, "post:optimize_mps:ofs_qn_valid", "optimize_mps", f"labels invalid: {qv[:1]}", key + ("qnv",), fields, rep, moved)
    if regime in ("full", "int"):
        led.check(amax(en - e0) <= tolE, "post:optimize_mps:ofs_energy_equals_no_ofs_and_exact", "optimize_mps",
                  f"sweep energies minus exact = {(en - e0).tolist()} (the run without OFS reproduces the exact value to {tolE:.1e})", key + ("energy",), fields, rep, moved)
        led.check(abs(ray - e0) <= 10 * tolE, "post:optimize_mps:ofs_final_energy_with_reordered_operator", "optimize_mps",
                  f"<res|X H X^T|res> - E0 = {ray - e0:.3e} with X the permutation recorded in res.model = {order}", key + ("ray=",), fields, rep, moved)
        if gap > 1e-3 * scale:
            ov = abs(np.vdot(X @ gs, v)) / np.linalg.norm(v)
            led.check(1 - ov <= 1e-8 + 100 * tolE / gap, "post:optimize_mps:ofs_ground_state_up_to_permutation", "optimize_mps",
                      f"1 - |<X gs|res>| = {1 - ov:.3e} (gap {gap:.3f}); X = recorded site permutation{' with fermionic sign' if jw else ''}",
                      key + ("state",), fields, rep, moved)
    if regime != "int":
        led.obs.append({"part": "optimize_mps", "procedure_entries": "CompressConfig", "regime": regime, "model": family, "n": n,
                        "ofs": ofs_name, "swap_jw": jw, "sites_exchanged": bool(moved or moved_m)})


def worker_stacked_probe(case, led):
    """observation only: StackedMpo has no try_swap_site, so an *active* OFS cannot be combined with a stacked ab-initio operator"""
    from renormalizer.model import Model, h_qc
    from renormalizer.mps import Mpo, StackedMpo
    from renormalizer.mps.gs import optimize_mps
    from renormalizer.utils import CompressConfig, CompressCriteria, OFS
    _, seed, tier = case
    rng = _rng(seed, "stackedprobe")
    h, e = F.physical_integrals(2, rng)
    sh, aseri = h_qc.int_to_h(h, e)
    basis, terms = h_qc.qc_model(sh, aseri, stacked=True)
    mpo = StackedMpo([Mpo(Model(basis, t)) for t in terms])
    model = Model(basis, [t for l in terms for t in l])
    mps = fresh_state(model, [1, 1], 16, rng)
    mps.optimize_config.method = "2site"
    mps.optimize_config.procedure = [[CompressConfig(CompressCriteria.fixed, max_bonddim=16, ofs=OFS.ofs_s), 0.2]] * 2
    try:
        optimize_mps(mps, mpo)
        out = "ran"
    except Exception as ex:
        out = f"{type(ex).__name__}: {ex}"
    led.obs.append({"part": "optimize_mps", "operator": "StackedMpo", "ofs": "ofs_s (active, CompressConfig procedure entries)", "outcome": out})
    led.ok("obs:optimize_mps:ofs_with_stacked_mpo", "optimize_mps", ("stackedprobe",), nontrivial=False)


WORKERS = {"jw": worker_jw, "jwpat": worker_jwpat, "raw": worker_raw, "ladder": worker_ladder, "swap": worker_swap, "step": worker_step,
           "evolve": worker_evolve, "opt": worker_opt, "stackedprobe": worker_stacked_probe}
_checked = []


def worker(case, led):
    led.obs = []
    if not _checked:
        F.self_check()      # the reference's own algebra (anticommutators, path independence of the re-ordering sign)
        _checked.append(1)
    WORKERS[case[0]](case, led)


# ------------------------------------------------------------------------------------------------ enumeration
def enumerate_cases(tier, seed):
    quick = tier == "quick"
    cases = []
    # --- part 1
    kinds = ["dense", "sparse", "h0", "eri0", "zero_row", "block"]
    ks = [1, 2, 3] if quick else [1, 2, 3, 4]
    for k in ks:
        reps = (2 if quick else 4) if k < 4 else 1
        for kind in kinds:
            for idx in range(reps if kind not in ("sparse",) else reps * (3 if k >= 3 else 1)):
                cases.append(("jw", k, kind, idx, seed, tier))
    for k in (1, 2):
        nbits = len(F.unique_h(k)) + len(F.unique_eri(k))
        chunk = 16
        for start in range(0, 2 ** nbits, chunk):
            cases.append(("jwpat", k, start, min(2 ** nbits, start + chunk), seed, tier))
    for n in ([1, 2, 3, 4] if quick else [1, 2, 3, 4, 5, 6]):
        for cons in (True, False):
            for idx in range(6 if quick else 12):
                cases.append(("raw", n, cons, idx, seed, tier))
    for n in ([1, 2, 3, 4] if quick else [1, 2, 3, 4, 5, 6]):
        cases.append(("ladder", n, seed, tier))
    # --- part 2
    fam_sizes = [("spin", [2, 3, 4]), ("spinqn", [2, 3, 4]), ("vibronic", [2, 3, 4])]
    if not quick:
        fam_sizes = [("spin", [2, 3, 4, 5]), ("spinqn", [2, 3, 4, 5]), ("vibronic", [2, 3, 4, 5])]
    for fam, sizes in fam_sizes:
        for n in sizes:
            cases.append(("swap", fam, n, False, seed, tier))
    for fam in ("qc_short", "qc_long", "qc_noqn"):
        for n in (2, 4, 6):
            for jw in (False, True):
                if fam == "qc_noqn" and n == 6:
                    continue
                cases.append(("swap", fam, n, jw, seed, tier))
    for fam, n in (("spinqn@qr", 4), ("vibronic@qr", 4), ("qc_short@qr", 4)):
        cases.append(("swap", fam, n, False, seed, tier))
    # --- part 3
    seeds = [seed] if quick else [seed, seed + 1, seed + 2]
    for s in seeds:
        for ofs in OFS_NAMES:
            for mtag in ("full", "trunc"):
                for fam, n in (("spin", 4), ("spinqn", 4), ("vibronic", 4), ("spinqn", 3), ("vibronic", 3)) + ((("spin", 5), ("vibronic", 5)) if not quick else ()):
                    cases.append(("step", fam, n, ofs, False, mtag, False, s, tier))
                for fam in ("qc_short", "qc_long", "qc_noqn"):
                    for n in (4,) if quick else (4, 6):
                        for jw in (False, True):
                            cases.append(("step", fam, n, ofs, jw, mtag, False, s, tier))
            cases.append(("step", "vibronic", 4, ofs, False, "full", True, s, tier))
            cases.append(("step", "spinqn", 3, ofs, False, "trunc", True, s, tier))
    # --- part 4 / 5
    for s in seeds:
        for ofs in OFS_NAMES:
            for fam, n in (("spin", 4), ("spinqn", 4), ("vibronic", 4)) + ((("spin", 5), ("vibronic", 5), ("spinqn", 3)) if not quick else ()):
                cases.append(("evolve", fam, n, ofs, False, s, tier))
                for regime in ("full", "trunc", "int"):
                    cases.append(("opt", fam, n, ofs, False, regime, s, tier))
            for fam in ("qc_short", "qc_long", "qc_noqn"):
                for n in (4,) if quick else (4, 6):
                    for jw in (False, True):
                        if fam == "qc_noqn" and not jw:
                            continue
                        cases.append(("evolve", fam, n, ofs, jw, s, tier))
                        for regime in ("full", "trunc", "int"):
                            cases.append(("opt", fam, n, ofs, jw, regime, s, tier))
    cases.append(("stackedprobe", seed, tier))
    # heavy cases first (better pool balance)
    weight = {"swap": 5, "jw": 4, "opt": 3, "evolve": 3, "step": 2, "raw": 2, "jwpat": 2, "ladder": 1, "stackedprobe": 1}

    def cost(c):
        size = {"jw": lambda: 2 * c[1], "jwpat": lambda: 2 * c[1], "raw": lambda: c[1], "ladder": lambda: c[1], "stackedprobe": lambda: 4}.get(c[0], lambda: c[2])()
        return -(weight[c[0]] * 2 ** size)
    cases.sort(key=cost)
    return cases


def check(run):
    from props import C17_proof
    C17_proof.prove(run)
    from props import C17_sym
    from vk.symx.harness import guarded
    guarded(run, C17_sym.prove)
    cases = enumerate_cases(run.tier, run.seed)
    leds = run_cases(run, worker, cases)
    obs = [o for led in leds for o in getattr(led, "obs", []) if o]
    int_runs = [o for o in obs if o.get("procedure_entries") == "int"]
    cfg_runs = [o for o in obs if o.get("part") == "optimize_mps" and o.get("procedure_entries") == "CompressConfig" and o.get("ofs") != "ofs_debug"]
    ev_runs = [o for o in obs if o.get("part") == "evolve" and o.get("ofs") != "ofs_debug"]
    run.extra["observations"] = {
        "optimize_mps_integer_procedure": {
            "runs_with_ofs_requested": len([o for o in int_runs if o["ofs"] != "ofs_debug"]),
            "runs_in_which_sites_were_exchanged": len([o for o in int_runs if o["sites_exchanged"] and o["ofs"] != "ofs_debug"]),
            "note": "optimize_mps replaces mps.compress_config by CompressConfig(fixed, max_bonddim=M) for every integer procedure entry, "
                    "so compress_config.ofs / ofs_swap_jw set by the caller are dropped and OFS never runs in that (documented, tested) usage; "
                    "the OFS contracts of this check therefore pass CompressConfig objects as procedure entries"},
        "optimize_mps_compressconfig_procedure": {"runs": len(cfg_runs), "runs_in_which_sites_were_exchanged": len([o for o in cfg_runs if o["sites_exchanged"]])},
        "evolve_tdvp_ps2": {"runs": len(ev_runs), "runs_in_which_sites_were_exchanged": len([o for o in ev_runs if o["sites_exchanged"]])},
        "stacked_mpo_with_active_ofs": [o for o in obs if o.get("operator") == "StackedMpo"],
    }
    run.exhaustive = False
    run.rule = ("Part 1: symmetric h / 8-fold symmetric (pq|rs) for 1..3 (thorough: 4) spatial orbitals of kinds {dense random, sparse from {0,+-1,0.5}, h=0, "
                "eri=0, zero row/column of h, block-vanishing}, ALL 2^2-1 / 2^9-1 sparsity patterns over the symmetry-unique entries for 1 / 2 orbitals, "
                "x {flat, stacked} x {with, without quantum numbers}; arbitrary (non-symmetric, every index order) coefficient tensors on 1..4 (6) spin "
                "orbitals; all ladder operators and random words of <= 4 ladder operators.  Part 2: spin / spin+qn / vibronic chains of 2..4 (5) sites and "
                "ab-initio models of 2/4/6 spin orbitals written with short (+,-,Z) and long (sigma_*) symbols x swap_jw in {False, True (ab-initio only)}: "
                "ALL sequences of <= 3 adjacent swaps for <= 4 sites, seeded subsets above.  Part 3: identity-update OFS sweeps (2 sweeps) for each OFS "
                "criterion x {no truncation, M=2..3} x Mps/MpDm.  Parts 4/5: evolve(tdvp_ps2) and optimize_mps with each criterion, swap_jw on/off, at "
                "complete bond dimension (exact oracle), with truncating first sweeps (variational-bound oracle) and with integer procedure entries.  "
                "non-trivial = two-electron part present (Part 1), word length >= 2, the site order actually changed (Parts 2-5) or the criterion "
                "discriminates between the two orders (decision clause); distinct = distinct (part, model, size, sequence / criterion / bond, clause) keys")
    run.sample({"part": "jw", "norb": 2, "kind": "block", "variant": "stacked / conserve_qn=True",
                "contract": "dense(sum_p Mpo(Model(basis, terms_p))) == sum h a+a + 1/2 sum (pq|rs) a+a+aa built from bit-string Fock operators; Hermitian; "
                            "[H, N_alpha] = [H, N_beta] = 0"})
    run.sample({"part": "swap", "model": "qc_long", "nsites": 4, "swap_jw": True, "sequence": [1, 2, 1],
                "contract": "dense(mpo) after the swaps == fermionic Hamiltonian written in orbital order [0, 3, 2, 1] == F H F^T"})
    run.sample({"part": "evolve", "model": "vibronic", "nsites": 4, "ofs": "ofs_s", "M": 128,
                "contract": "dense(mps(t)) == P exp(-iHt) psi0 within 8*n*steps*1e-6, dense(mpo) == P H P^T, P = permutation recorded in mps.model"})
    run.explanation = ("Deductive parts: the sign loop of simplify_op (pyvc), and Engine S: int_to_h / qc_model executed on indeterminate integrals equal the "
                       "anticommuting-operator Hamiltonian for all integral values (number of orbitals enumerated).  Everything else is runtime contracts "
                       "(bounded stand-in).  The Jordan-Wigner model is compared with a Hamiltonian assembled from "
                       "anticommuting operators defined on occupation bit strings; site exchanges are compared with explicit permutation / fermionic-swap "
                       "matrices; OFS runs are compared with exact diagonalisation / matrix exponentials at complete bond dimension, where two-site DMRG and "
                       "two-site projector splitting are exact.  Truncating runs are only held to the variational bound and to the consistency of state and "
                       "operator, because equality of energies is not a theorem there.")
    run.trusted += ["numpy/scipy dense linear algebra (eigh, svd, expm) as oracle",
                    "independent dense contraction in vk/specs/chain.py",
                    "bit-string definition of fermionic ladder operators and of the re-ordering sign in vk/specs/c17.py (self-checked: CAR, path independence)",
                    "BasisHalfSpin.op_mat for the letters +,-,Z / sigma_* (C16 clause) in the ladder/simplify_op sub-contract",
                    "exactness of two-site DMRG / two-site TDVP-PS at complete bond dimension (verified per case against the run without OFS)"]
