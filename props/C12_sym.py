"""Engine S part of C12: the tree propagation-and-compression step is the 4th-order Taylor polynomial of the propagator, for all tensor values.

renormalizer.tn.time_evolution.evolve_prop_and_compress_tdrk4 runs on symbolic tree states of every rooted ordered tree shape of the universe (kernel-stub mode:
lossless compressions around trivially factorised blocks) with the exactly lifted TTNO; the dense result equals sum_{k<=4} (coeff tau H)^k / k! psi as polynomials in
the node tensor entries, for real (coeff = -i) and imaginary (coeff = 1... -1 handled by TTNS.evolve's convention) time.  The TDVP schemes need local exponentials and stay bounded."""
from fractions import Fraction
import math

import numpy as np

from vk.specs import tree as T
from vk.specs import treeuniv as TU
from vk.symx import shims as SH
from vk.symx.harness import decide_close, decide_true, native_pair
from vk.symx.poly import Poly, VarFactory


def prove(run):
    from renormalizer.tn.time_evolution import evolve_prop_and_compress_tdrk4
    from renormalizer.utils import CompressConfig, CompressCriteria
    nmax = 4 if run.tier == "quick" else 5
    ncase = 0
    big = CompressConfig(CompressCriteria.fixed, max_bonddim=10 ** 4)
    for n_nodes in range(2, nmax + 1):
        for flavour in ("spinqn", "holstein"):
            seen = set()
            shapes = T.tree_shapes(n_nodes)
            seed = run.seed * 1000 + 700
            tries = 0
            while len(seen) < len(shapes) and tries < 40 * len(shapes):
                tries += 1
                seed += 1
                su = TU.setup(seed, n_nodes, flavour, max_dim=150)
                if su is None or su["shape"] in seen:
                    continue
                bt, order, H, Hn, sectors, rng = su["bt"], su["order"], su["H"], su["Hd"], su["sectors"], su["rng"]
                q = sectors[len(sectors) // 2]
                a0 = TU.random_ttns(bt, q, 2, rng)
                if a0 is None:
                    continue
                seen.add(su["shape"])
                vf = VarFactory()
                a = SH.symbolic_ttns(a0, vf)
                Hs = SH.const_ttno(H)
                a0c = a0.to_complex()
                for node in a0c.node_list:
                    t = np.asarray(node.tensor)
                    node.tensor = t * np.exp(2j * np.pi * rng.random(t.shape))
                case = dict(TU.describe_tree(bt), flavour=flavour, seed=seed, shape=repr(su["shape"]), sector=q)
                for coeff, tau, label in ((-1j, 0.125, "real time"), (-1.0, 0.0625, "imaginary time")):
                    ncase += 1
                    tag = f"{flavour}:{su['shape']!r}:{label}"
                    fn = "evolve_prop_and_compress_tdrk4"
                    z = complex(coeff) * tau

                    def native():
                        x = a0c.copy()
                        x.compress_config = big
                        r_ = evolve_prop_and_compress_tdrk4(x, H, coeff, tau)
                        v_ = T.dense_ttns(a0c, order)
                        ref_, term_ = v_.copy(), v_
                        for k in range(1, 5):
                            term_ = (Hn @ term_) * z / k
                            ref_ = ref_ + term_
                        return T.dense_ttns(r_, order), ref_
                    with SH.kernel_stub_mode_tree():
                        Hd = T.dense_ttno(Hs, order)
                        va = T.dense_ttns(a, order)
                        x = a.copy()
                        x.compress_config = big
                        try:
                            r = evolve_prop_and_compress_tdrk4(x, Hs, coeff, tau)
                        except Exception as e:
                            decide_true(run, f"post:{fn}:total[{tag}]", fn, False, f"raised on symbolic tensors: {type(e).__name__}: {e}", case)
                            continue
                        ref, term = va, va
                        for k in range(1, 5):
                            term = Hd.dot(term) * Poly.const(z) * Poly.const(Fraction(1, k))
                            ref = ref + term
                        decide_close(run, f"post:{fn}:one_step_is_the_taylor_polynomial[{tag}]", fn, T.dense_ttns(r, order), ref, dict(case, time=label),
                                     numeric_replay=native_pair(native, "props.C12_sym: vk.specs.treeuniv.setup(seed, n_nodes, flavour), random state with random phases, real float code"))
    run.extra.setdefault("symx", {})["C12"] = {"tree_cases": ncase, "kernel_stubs": SH.KERNEL_STUBS, "shims": SH.TREE_SHIMS}
    if ncase == 0:
        run.crash("C12_sym: no case generated")
