"""Engine S part of C17: the ab-initio builders with *indeterminate integrals*.

`int_to_h(h, eri)` only routes integrals into spin-orbital tensors and `qc_model(sh, aseri)` emits one Jordan-Wigner string per non-zero entry, so both are
executed on exact polynomials: every entry in the support of the one- and two-electron tensors is an independent complex indeterminate.  qc_model branches on which
entries are zero (it emits nothing for them and groups the stacked layout by what is left), so the support patterns are enumerated (full, no one- / two-electron part,
a single row, an idle orbital, random sparse ones); within a pattern the obligations are equalities of normal forms, hence hold for ALL values of the integrals:

  qc_model      sum of the emitted terms (factor x Kronecker product of the site operators of the returned basis)  ==
                sum_pq sh[p,q] a+_p a_q + sum_pqrs aseri[p,q,r,s] a+_p a+_q a_r a_s,  a_p the anticommuting operators written on occupation-number bit strings
                (vk.specs.c17, no Jordan-Wigner products), for both layouts (flat / stacked) and with and without conserved particle numbers;
                every letter of an emitted term is labelled with the change of (N_alpha, N_beta) it makes (all-zero labels without conservation);
  int_to_h      the spin-orbital Hamiltonian of (sh, aseri) == sum h_pq a+_ps a_qs + 1/2 sum (pq|rs) a+_ps a+_rt a_st a_qs for all symmetric h and all eight-fold symmetric
                (pq|rs) -- the precondition the property states (the code itself needs only (pq|rs) = (rs|pq); demanding less would flag code for which the property holds);
  ladder        generate_ladder_operator(n)[j] is the bit-string operator a_j / a+_j (no indeterminates: exact execution, every n in the universe).

What is assumed: `np.zeros` inside renormalizer.model.h_qc returns exact-zero object arrays (the module's numpy is proxied for that one name), Op.__mul__ accepts a
polynomial factor (the shim of C01/C15).  The number of orbitals is enumerated (bounded in n, unbounded in the integrals)."""
import itertools

import numpy as np

from vk.specs import c17 as F
from vk.symx.harness import decide, decide_true, native_pair
from vk.symx.poly import Poly, VarFactory
from props.C01_sym import op_shim

SHIMS = ["renormalizer.model.h_qc.np.zeros returns an exact-zero object array (numpy proxied for that one name while int_to_h runs on polynomials)",
         "Op.__mul__/__rmul__ accept an exact polynomial as scalar factor"]


class _NpProxy:
    def __init__(self, real):
        self._real = real

    def __getattr__(self, name):
        return getattr(self._real, name)

    def zeros(self, shape, *a, **k):
        out = np.empty(shape, dtype=object)
        out.fill(Poly())
        return out


class zeros_shim:
    def __enter__(self):
        import renormalizer.model.h_qc as hq
        self.hq, self.keep = hq, hq.np
        hq.np = _NpProxy(hq.np)

    def __exit__(self, *a):
        self.hq.np = self.keep


def sym_tensor(shape, vf, keep=None):
    out = np.empty(shape, dtype=object)
    for idx in itertools.product(*[range(s) for s in shape]):
        out[idx] = vf.fresh() if keep is None or keep(idx) else Poly()
    return out


def _orbit(p, q, r, s):
    return {(p, q, r, s), (q, p, r, s), (p, q, s, r), (q, p, s, r), (r, s, p, q), (s, r, p, q), (r, s, q, p), (s, r, q, p)}


def symmetric_integrals(k, vf, numeric_rng=None):
    """the precondition of the property: h[p,q] == h[q,p] and the eight-fold symmetry (pq|rs) = (qp|rs) = (pq|sr) = (rs|pq); otherwise independent"""
    sym = numeric_rng is None
    h = np.empty((k, k), dtype=object if sym else float)
    for p in range(k):
        for q in range(p, k):
            h[p, q] = h[q, p] = vf.fresh() if sym else float(numeric_rng.normal())
    e = np.empty((k,) * 4, dtype=object if sym else float)
    for idx in itertools.product(range(k), repeat=4):
        orb = _orbit(*idx)
        if idx == min(orb):
            v = vf.fresh() if sym else float(numeric_rng.normal())
            for j in orb:
                e[j] = v
    return h, e


def _acc(D, M, coef, sym):
    """D += coef * M for a numeric matrix M with few non-zero entries"""
    for i, j in zip(*np.nonzero(M)):
        D[i, j] = D[i, j] + coef * (M[i, j] if not sym else Poly.const(complex(M[i, j])))


def _zeros(D, sym):
    out = np.empty((D, D), dtype=object if sym else complex)
    out.fill(Poly() if sym else 0.0)
    return out


def ref_spin_orbital(sh, aseri, sym):
    n = len(sh)
    a = F.fock_annihilators(n)
    ad = [x.T for x in a]
    H = _zeros(2 ** n, sym)
    for p, q in itertools.product(range(n), repeat=2):
        if not (sh[p, q] == 0):
            _acc(H, ad[p] @ a[q], sh[p, q], sym)
    for p, q, r, s in itertools.product(range(n), repeat=4):
        if not (aseri[p, q, r, s] == 0):
            _acc(H, ad[p] @ ad[q] @ a[r] @ a[s], aseri[p, q, r, s], sym)
    return H


def ref_spatial(h, eri, sym):
    k = len(h)
    n = 2 * k
    a = F.fock_annihilators(n)
    ad = [x.T for x in a]
    H = _zeros(2 ** n, sym)
    half = Poly.const(0.5) if sym else 0.5
    for p, q in itertools.product(range(k), repeat=2):
        for s1 in range(2):
            _acc(H, ad[2 * p + s1] @ a[2 * q + s1], h[p, q], sym)
    for p, q, r, s in itertools.product(range(k), repeat=4):
        for s1 in range(2):
            for s2 in range(2):
                _acc(H, ad[2 * p + s1] @ ad[2 * r + s2] @ a[2 * s + s2] @ a[2 * q + s1], half * eri[p, q, r, s], sym)
    return H


def op_dense(basis, op, sym):
    """factor x Kronecker product over the sites of the product of the letters the term puts there (letters in the order the term lists them)"""
    site = {b.dofs[0]: i for i, b in enumerate(basis)}
    mats = [np.eye(2) for _ in basis]
    for letter, dof in zip(op.split_symbol, op.dofs):
        i = site[dof]
        mats[i] = mats[i] @ np.asarray(basis[i].op_mat(letter), dtype=float)
    M = np.array([[1.0]])
    for m in mats:
        M = np.kron(M, m)
    return M, op.factor


def model_dense(basis, terms, stacked, sym):
    n = len(basis)
    D = _zeros(2 ** n, sym)
    flat = [t for grp in terms for t in grp] if stacked else list(terms)
    for op in flat:
        M, f = op_dense(basis, op, sym)
        _acc(D, M, f, sym)
    return D, flat


def charge_ok(op, conserve_qn):
    """every letter of an emitted term carries the change of (N_alpha, N_beta) it makes on its orbital (the total is whatever the integrals demand:
    indeterminate sh[p, q] with p, q of different spin is a spin flip)"""
    if not conserve_qn:
        return all(np.all(np.asarray(q) == 0) for q in op.qn_list), "labels without conservation must vanish"
    want = {"+": -1, "-": 1, "Z": 0}
    for letter, dof, q in zip(op.split_symbol, op.dofs, op.qn_list):
        w = [0, 0]
        w[dof % 2] = want[letter]
        if list(np.asarray(q).reshape(-1)) != w:
            return False, f"letter {letter} on orbital {dof} labelled {q}, changes the particle numbers by {w}"
    return True, ""


def patterns(n, run):
    """support patterns of (sh, aseri): which entries are indeterminate (non-zero), which are exactly zero"""
    big = n >= 4
    # n = 4, 5: two-electron entries only where the package stores them (p < q, r < s) plus a band of others, to keep the polynomial count moderate
    base2 = (lambda i: True) if not big else (lambda i: (i[0] < i[1] and i[2] < i[3]) or sum(i) % 5 == 0)
    out = [("full", lambda i: True, base2),
           ("no-one-electron-part", lambda i: False, base2),
           ("no-two-electron-part", lambda i: True, lambda i: False),
           ("one-electron-row0-only", lambda i: i[0] == 0, lambda i: base2(i) and i[0] >= 1),
           ("last-orbital-idle", lambda i: max(i) < n - 1, lambda i: base2(i) and max(i) < n - 1)]
    for k in range(2 if run.tier == "quick" else 5):
        rng = np.random.default_rng([run.seed, n, k, 991])
        m1 = rng.random((n, n)) < 0.4
        m2 = rng.random((n,) * 4) < (0.3 if not big else 0.15)
        out.append((f"sparse{k}", (lambda i, m1=m1: bool(m1[i])), (lambda i, m2=m2: bool(m2[i]))))
    return out


def prove(run):
    from renormalizer.model import h_qc
    ns = (2, 3, 4) if run.tier == "quick" else (1, 2, 3, 4, 5)
    ncase = 0
    for n in ns:
        # ---- ladder operators (no indeterminates)
        try:
            a_ops, a_dag_ops = h_qc.generate_ladder_operator(n)
            basis, _ = h_qc.qc_model(np.zeros((n, n)), np.zeros((n,) * 4))
            A = F.fock_annihilators(n)
            for j in range(n):
                for nm, op, want in (("a", a_ops[j], A[j]), ("a_dag", a_dag_ops[j], A[j].T)):
                    M, f = op_dense(basis, op, False)
                    decide_true(run, f"post:generate_ladder_operator:is_the_anticommuting_operator[{nm}{j}@n{n}]", "generate_ladder_operator",
                                np.array_equal(M * f, want), f"Jordan-Wigner string of {nm}_{j} on {n} orbitals differs from the bit-string definition", {"norbs": n, "op": nm, "j": j})
        except Exception as e:
            decide_true(run, f"post:generate_ladder_operator:total[n{n}]", "generate_ladder_operator", False, f"raised {type(e).__name__}: {e}", {"norbs": n})
        # ---- qc_model with indeterminate integrals on every support pattern of the universe (the function branches on which entries are zero)
        for pname, keep1, keep2 in patterns(n, run):
          for stacked in (False, True):
            for qn in (True, False):
                ncase += 1
                vf = VarFactory()
                sh = sym_tensor((n, n), vf, keep1)
                g = sym_tensor((n,) * 4, vf, keep2)
                tag = f"n{n}:{pname}:{'stacked' if stacked else 'flat'}:{'qn' if qn else 'noqn'}"
                case = {"norbs": n, "stacked": stacked, "conserve_qn": qn, "support": pname}
                fn = "qc_model"

                def native(n=n, stacked=stacked, qn=qn, keep1=keep1, keep2=keep2):
                    rng = np.random.default_rng([run.seed, n, 977])
                    s_ = rng.normal(size=(n, n)) + 1j * rng.normal(size=(n, n))
                    g_ = rng.normal(size=(n,) * 4) + 1j * rng.normal(size=(n,) * 4)
                    for i in itertools.product(range(n), repeat=2):
                        if not keep1(i):
                            s_[i] = 0.0
                    for i in itertools.product(range(n), repeat=4):
                        if not keep2(i):
                            g_[i] = 0.0
                    b_, t_ = h_qc.qc_model(s_, g_, stacked=stacked, conserve_qn=qn)
                    return model_dense(b_, t_, stacked, False)[0], ref_spin_orbital(s_, g_, False)
                how = "props.C17_sym: qc_model on random complex integrals with the same support, sum of the emitted terms vs the bit-string operators"
                try:
                    with op_shim():
                        basis, terms = h_qc.qc_model(sh, g, stacked=stacked, conserve_qn=qn)
                        D, flat = model_dense(basis, terms, stacked, True)
                except Exception as e:
                    decide_true(run, f"post:{fn}:total[{tag}]", fn, False, f"raised on indeterminate integrals: {type(e).__name__}: {e}", case, numeric_replay=native_pair(native, how))
                    continue
                decide(run, f"post:{fn}:fermionic_matrix_for_all_integrals[{tag}]", fn, D, ref_spin_orbital(sh, g, True), case,
                       numeric_replay=native_pair(native, how), fields={"stacked": stacked, "conserve_qn": qn, "support": pname})
                bad = [(repr(op), why) for op in flat for ok, why in [charge_ok(op, qn)] if not ok]
                decide_true(run, f"post:{fn}:letters_carry_their_charge[{tag}]", fn, not bad, f"{bad[:2]}", case, fields={"stacked": stacked, "conserve_qn": qn})
                decide_true(run, f"post:{fn}:one_half_spin_site_per_orbital_in_index_order[{tag}]", fn,
                            len(basis) == n and all(type(b).__name__ == "BasisHalfSpin" and list(b.dofs) == [i] for i, b in enumerate(basis)), "basis is not e_0 .. e_{n-1}", case)
                if stacked:
                    # the stacked layout groups by the first creator: the groups partition the flat term list
                    with op_shim():
                        _, tflat = h_qc.qc_model(sh, g, stacked=False, conserve_qn=qn)
                    Df, _ = model_dense(basis, tflat, False, True)
                    decide(run, f"post:{fn}:stacked_groups_sum_to_the_flat_model[{tag}]", fn, D, Df, case, fields={"stacked": True, "conserve_qn": qn})
                    decide_true(run, f"post:{fn}:no_empty_group[{tag}]", fn, all(len(grp) > 0 for grp in terms), "an empty group of terms (an operator without terms cannot be built)", case)
    # ---- int_to_h with indeterminate spatial integrals
    for k in ((1, 2) if run.tier == "quick" else (1, 2, 3)):
        ncase += 1
        vf = VarFactory()
        h, eri = symmetric_integrals(k, vf)
        tag = f"k{k}"
        case = {"spatial_orbitals": k, "precondition": "h symmetric, (pq|rs) eight-fold symmetric"}
        fn = "int_to_h"

        def native(k=k):
            rng = np.random.default_rng([run.seed, k, 983])
            h_, e_ = symmetric_integrals(k, None, rng)
            s_, a_ = h_qc.int_to_h(h_.copy(), e_.copy())
            return ref_spin_orbital(s_, a_, False), ref_spatial(h_, e_, False)
        how = "props.C17_sym: int_to_h on random real symmetric integrals; spin-orbital Hamiltonian vs the spatial-integral Hamiltonian (bit-string operators)"
        try:
            with zeros_shim():
                sh, aseri = h_qc.int_to_h(h, eri)
        except Exception as e:
            decide_true(run, f"post:{fn}:total[{tag}]", fn, False, f"raised on indeterminate integrals: {type(e).__name__}: {e}", case, numeric_replay=native_pair(native, how))
            continue
        decide_true(run, f"post:{fn}:shapes[{tag}]", fn, np.shape(sh) == (2 * k,) * 2 and np.shape(aseri) == (2 * k,) * 4, f"shapes {np.shape(sh)} {np.shape(aseri)}", case)
        decide(run, f"post:{fn}:spin_orbital_hamiltonian_for_all_integrals[{tag}]", fn, ref_spin_orbital(sh, aseri, True), ref_spatial(h, eri, True), case,
               numeric_replay=native_pair(native, how))
        # the composition: the model built from the routed integrals
        if k <= 2:
            try:
                with op_shim():
                    basis, terms = h_qc.qc_model(sh, aseri)
                    D, _ = model_dense(basis, terms, False, True)
                decide(run, f"post:qc_model:equals_second_quantised_hamiltonian_for_all_integrals[{tag}]", "qc_model", D, ref_spatial(h, eri, True), case)
            except Exception as e:
                decide_true(run, f"post:qc_model:total[int_to_h:{tag}]", "qc_model", False, f"raised on routed indeterminate integrals: {type(e).__name__}: {e}", case)
    run.extra.setdefault("symx", {})["C17"] = {"cases": ncase, "shims": SHIMS}
    if ncase == 0:
        run.crash("C17_sym: no case generated")
