"""Engine S part of C01 / C02: the graph-based symbolic constructors run with *indeterminate coefficients*.

The real construct_symbolic_mpo / construct_symbolic_ttno are executed with the coefficient vector replaced by independent complex indeterminates
x_r (one per row of the de-duplicated term table).  The bipartite decompositions only route coefficients, so the result is a symbolic operator whose
entries carry polynomials in x; multiplying it out must give exactly sum_r x_r word_r.  Decided by normal form: holds for ALL coefficient values at
each enumerated term structure (the QR variant pivots on values and stays bounded-only)."""
import contextlib

import numpy as np

from vk.specs import formal as F
from vk.symx.harness import decide, decide_true, native_pair
from vk.symx.poly import Poly, VarFactory

GRAPH_ALGOS = ("Hopcroft-Karp", "Hungarian")
SHIMS = ["renormalizer.model.op.Op.__mul__/__rmul__ and OpSum.__mul__/__rmul__ accept an exact polynomial as scalar factor (the type check lists int/float/complex only)",
         "for trees: the name _terms_to_table inside renormalizer.tn.symbolic_ttno returns the same table with the coefficient vector replaced by indeterminates"]


@contextlib.contextmanager
def op_shim():
    import renormalizer.model.op as opmod
    om, orm = opmod.Op.__mul__, opmod.Op.__rmul__

    def mul(self, other):
        if isinstance(other, Poly):
            return opmod.Op(self.symbol, self.dofs, self.factor * other, self.qn_list)
        return om(self, other)

    def rmul(self, other):
        if isinstance(other, Poly):
            return opmod.Op(self.symbol, self.dofs, other * self.factor, self.qn_list)
        return orm(self, other)
    sm_, srm_ = opmod.OpSum.__mul__, opmod.OpSum.__rmul__

    def smul(self, other):
        if isinstance(other, Poly):
            return opmod.OpSum([op * other for op in self])
        return sm_(self, other)

    def srmul(self, other):
        if isinstance(other, Poly):
            return opmod.OpSum([other * op for op in self])
        return srm_(self, other)
    opmod.Op.__mul__, opmod.Op.__rmul__ = mul, rmul
    opmod.OpSum.__mul__, opmod.OpSum.__rmul__ = smul, srmul
    try:
        yield
    finally:
        opmod.Op.__mul__, opmod.Op.__rmul__ = om, orm
        opmod.OpSum.__mul__, opmod.OpSum.__rmul__ = sm_, srm_


def prove_chain(run):
    from props.C01 import models, gen_terms, decorate
    from renormalizer.model import Model
    from renormalizer.mps.symbolic_mpo import construct_symbolic_mpo, _terms_to_table
    ncase = 0
    for mname, basis in models(run.tier).items():
        model = Model(basis, [])
        rng = np.random.default_rng([run.seed, 131, sum(map(ord, mname))])
        charges = [tuple([0] * model.qn_size)] + ([(1,)] if mname in ("spinqn4", "holstein") else [])
        for trial in range(6 if run.tier == "quick" else 20):
            charge = charges[trial % len(charges)]
            terms = decorate(gen_terms(model, rng, int(rng.integers(2, 8)), charge, max_support=3), rng)
            if len(terms) < 2:
                continue
            const = [0.0, 1.3][trial % 2] if not any(charge) else 0.0
            try:
                table, primary_ops, factor = _terms_to_table(model, terms, const)
            except Exception:
                continue
            if table.shape[0] < 2:
                continue          # the single-term fast path has no decomposition
            vf = VarFactory()
            x = np.array([vf.fresh() for _ in range(table.shape[0])], dtype=object)
            want = F.target(table, primary_ops, x)
            case = {"model": mname, "terms": [repr(t) for t in terms], "const": const, "rows": int(table.shape[0]), "seed": run.seed, "trial": trial}
            for algo in GRAPH_ALGOS:
                ncase += 1
                tag = f"{mname}:{trial}:{algo}"

                def native():
                    # float replay: random complex coefficients through the same call
                    c = rng.normal(size=len(x)) + 1j * rng.normal(size=len(x))
                    mpo_n = construct_symbolic_mpo(table.copy(), primary_ops, c.copy(), algo=algo)[0]
                    keys, a, b = F.as_vectors(F.expand_chain(mpo_n), F.target(table, primary_ops, c))
                    return a, b
                with op_shim():
                    try:
                        mpo = construct_symbolic_mpo(table.copy(), primary_ops, x.copy(), algo=algo)[0]
                        got = F.expand_chain(mpo)
                    except Exception as e:
                        decide_true(run, f"post:construct_symbolic_mpo:total@{tag}", "construct_symbolic_mpo", False,
                                    f"raised on indeterminate coefficients: {type(e).__name__}: {e}", case)
                        continue
                keys, a, b = F.as_vectors(got, want)
                decide(run, f"post:construct_symbolic_mpo:formal_sum_for_all_coefficients@{tag}", "construct_symbolic_mpo", a, b, dict(case, algo=algo),
                       numeric_replay=native_pair(native, "props.C01_sym.prove_chain: same term table, random complex coefficients, real construct_symbolic_mpo"),
                       fields={"algo": algo})
    run.extra.setdefault("symx", {})["C01"] = {"term_structures_x_algorithms": ncase, "shims": SHIMS}
    if ncase == 0:
        run.crash("C01_sym: no case generated")


def _tree_case(run, bt, terms, rng_, case0, tagbase, how):
    """construct_symbolic_ttno on one tree with the coefficient vector replaced by indeterminates; returns the number of (tree, algorithm) cases decided"""
    import renormalizer.tn.symbolic_ttno as st
    from renormalizer.model import Model
    from itertools import chain as ichain
    nodes = bt.postorder_list()
    model = Model(list(ichain(*[n.basis_sets for n in nodes])), [])
    table0, primary_ops, factor0 = st._terms_to_table(model, terms, 0.0)
    if table0.shape[0] < 2:
        return 0
    vf = VarFactory()
    x = np.array([vf.fresh() for _ in range(table0.shape[0])], dtype=object)
    want = F.target(table0, primary_ops, x)
    case = dict(case0, terms=[repr(t) for t in terms], rows=int(table0.shape[0]))
    orig = st._terms_to_table
    ncase = 0
    for algo in GRAPH_ALGOS:
        ncase += 1
        tag = f"{tagbase}:{algo}"

        def run_with(coeffs):
            def fake(model_, terms_, const_):
                t, p, f = orig(model_, terms_, const_)
                assert t.shape == table0.shape and np.array_equal(t, table0)
                return t, p, coeffs.copy()
            st._terms_to_table = fake
            try:
                mpo, _ = st.construct_symbolic_ttno(bt, terms, 0.0, algo)
            finally:
                st._terms_to_table = orig
            return F.expand_tree(nodes, mpo)

        def native():
            c = rng_.normal(size=len(x)) + 1j * rng_.normal(size=len(x))
            keys, a, b = F.as_vectors(run_with(c), F.target(table0, primary_ops, c))
            return a, b
        with op_shim():
            try:
                got = run_with(x)
            except Exception as e:
                decide_true(run, f"post:construct_symbolic_ttno:total@{tag}", "construct_symbolic_ttno", False,
                            f"raised on indeterminate coefficients: {type(e).__name__}: {e}", case)
                continue
        keys, a, b = F.as_vectors(got, want)
        decide(run, f"post:construct_symbolic_ttno:formal_sum_for_all_coefficients@{tag}", "construct_symbolic_ttno", a, b, dict(case, algo=algo),
               numeric_replay=native_pair(native, how), fields={"algo": algo})
        # the additive constant of the direct entry point (TTNO.__init__ never passes one): sum(terms) + const * 1, numerically on the given coefficients
        try:
            from vk.symx.harness import decide_close
            const = 0.7
            mpo_c, _ = st.construct_symbolic_ttno(bt, terms, const, algo)
            tc, pc, fc = orig(model, terms, const)
            keys, a2, b2 = F.as_vectors(F.expand_tree(nodes, mpo_c), F.target(tc, pc, np.asarray(fc)))
            decide_close(run, f"post:construct_symbolic_ttno:additive_constant@{tag}", "construct_symbolic_ttno", a2, b2, dict(case, algo=algo, const=const), rel=1e-12, fields={"algo": algo})
        except Exception as e:
            decide_true(run, f"post:construct_symbolic_ttno:additive_constant:total@{tag}", "construct_symbolic_ttno", False, f"raised with const=0.7: {type(e).__name__}: {e}", case)
    return ncase


def prove_tree(run):
    from vk.specs import tree as T
    from vk.specs import treeuniv as TU
    from renormalizer.model import Model
    ncase = 0
    nmax = 4 if run.tier == "quick" else 5
    for n_nodes in range(2, nmax + 1):
        for flavour in ("spinqn", "holstein"):
            seen = set()
            shapes = T.tree_shapes(n_nodes)
            seed = run.seed * 1000 + 500
            tries = 0
            while len(seen) < len(shapes) and tries < 40 * len(shapes):
                tries += 1
                seed += 1
                su = TU.setup(seed, n_nodes, flavour, max_dim=400)
                if su is None or su["shape"] in seen:
                    continue
                seen.add(su["shape"])
                case0 = dict(TU.describe_tree(su["bt"]), flavour=flavour, seed=seed, shape=repr(su["shape"]))
                ncase += _tree_case(run, su["bt"], su["terms"], su["rng"], case0, f"{flavour}:{su['shape']!r}",
                                    "props.C01_sym.prove_tree: vk.specs.treeuniv.setup(seed, n_nodes, flavour); same term table, random complex coefficients, real construct_symbolic_ttno")
    # hub nodes: many children AND several basis sets on one node (5..6 index columns in the node's table), at the root and below it
    hubs = [(4, 1), (3, 2), (2, 3)] if run.tier == "quick" else [(4, 1), (3, 2), (2, 3), (5, 1), (4, 2)]
    for nch, nsets in hubs:
        for where in ("root", "inner"):
            rng = np.random.default_rng([run.seed, nch, nsets, 271, len(where)])
            cnt = [0]

            def mk():
                cnt[0] += 1
                return T.make_basis("spinqn", f"s{cnt[0] - 1}")
            hub_payload = [mk() for _ in range(nsets)]
            kids = [[mk()] for _ in range(nch)]
            if where == "root":
                shape, payloads = tuple(() for _ in range(nch)), [hub_payload] + kids
            else:
                shape, payloads = (tuple(() for _ in range(nch)), ()), [[mk()], hub_payload] + kids + [[mk()]]
            bt = T.build_basis_tree(shape, payloads)
            created = [b for p_ in payloads for b in p_]
            terms = TU.hermitian_terms(Model(created, []), rng)
            if not terms:
                continue
            case0 = dict(TU.describe_tree(bt), flavour="spinqn", shape=repr(shape), hub={"children": nch, "basis_sets": nsets, "position": where})
            ncase += _tree_case(run, bt, terms, rng, case0, f"hub{nch}+{nsets}:{where}",
                                "props.C01_sym.prove_tree: hub tree (children, basis sets, position) with vk.specs.treeuniv.hermitian_terms; random complex coefficients")
    run.extra.setdefault("symx", {})["C02"] = {"tree_shapes_x_algorithms": ncase, "shims": SHIMS}
    if ncase == 0:
        run.crash("C02_sym: no case generated")
