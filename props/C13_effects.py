"""Static frame obligations of C13: modifies clauses of the public state-producing / measuring methods, discharged over the current source (vk.pyvc.effects)."""
import time

from vk.pyvc import effects as EF
from vk.pyvc.run import index

MPS, MP, MPO, MPDM, TREE, LIB, TEVO = ("renormalizer/mps/mps.py", "renormalizer/mps/mp.py", "renormalizer/mps/mpo.py", "renormalizer/mps/mpdm.py",
                                       "renormalizer/tn/tree.py", "renormalizer/mps/lib.py", "renormalizer/tn/time_evolution.py")
TPROP = "renormalizer/mps/thermalprop.py"
FOLD = "R3 prefactor folding: tensors absorb coeff and coeff is reset to 1 in the same call, the represented vector (tensors x coeff) is unchanged (checked bounded: walker frame clause)"
INPL = "R3 only on the inplace=True path (new = self if inplace else copy): the documented in-place mode; inplace=False is audited by the bounded walkers"
OFS = "R3 documented exemption (property text): with on-the-fly swapping the Hamiltonian is re-ordered in place; equality up to the permutation is C17"
# function -> {(kind, parameter, detail): reason}  -- the modifies clause; everything else reachable from a parameter must stay untouched
CLAUSES = {
    (MPS, "Mps.evolve"): {("passed-to-modifying-callee", "mpo", "method"): "R3 the Hamiltonian is handed to the scheme implementations listed below; only _evolve_tdvp_ps2 with OFS touches it (exemption)"},
    (MPS, "Mps._evolve_prop_and_compress"): {("inplace-call", "self", "[].scale"): "R3 term 0 of the Taylor list is self scaled in place by (-i dt)^0 c_0 = 1 (dtype becomes complex, represented vector unchanged; bounded: walker evolve frame, C09)"},
    (MPS, "Mps._evolve_prop_and_compress_tdrk4"): {},
    (MPS, "Mps._evolve_prop_and_compress_tdrk"): {("returns-alias", "self", ""): "R3 `new_mps = self` only seeds the adaptive loop: its single exit (break) follows `new_mps = trial_mps`, a fresh "
                                                   "compressed_sum; the analysis joins branches flow-insensitively (bounded: C09 adaptive clauses compare the input before and after)"},
    (MPS, "Mps._evolve_tdvp_mu_vmf"): {},
    (MPS, "Mps._evolve_tdvp_mu_cmf"): {},
    (MPS, "Mps._evolve_tdvp_ps"): {},
    (MPS, "Mps._evolve_tdvp_ps2"): {("inplace-call", "mpo", "try_swap_site"): OFS},
    (MPS, "Mps.evolve_exact"): {},
    (MPS, "Mps.add"): {("inplace-call", "self", "scale"): FOLD, ("inplace-call", "other", "scale"): FOLD, ("write", "self", "coeff"): FOLD, ("write", "other", "coeff"): FOLD},
    (MPS, "Mps.distance"): {("inplace-call", "self", "scale"): FOLD, ("inplace-call", "other", "scale"): FOLD, ("write", "self", "coeff"): FOLD, ("write", "other", "coeff"): FOLD},
    (MPS, "Mps.conj"): {}, (MPS, "Mps.expectation"): {}, (MPS, "Mps.expectations"): {}, (MPS, "Mps.calc_1site_rdm"): {}, (MPS, "Mps.calc_2site_rdm"): {},
    (MPS, "Mps.calc_bond_singular_values"): {}, (MPS, "Mps.calc_bond_entropy"): {}, (MPS, "Mps.calc_entropy"): {}, (MPS, "Mps.metacopy"): {}, (MPS, "Mps.to_complex"): {},
    (MPS, "Mps.e_occupations"): {}, (MPS, "Mps.ph_occupations"): {}, (MPS, "Mps.calc_edof_rdm"): {}, (MPS, "Mps.norm"): {}, (MPS, "Mps.expand_bond_dimension"): {},
    (MP, "MatrixProduct.add"): {}, (MP, "MatrixProduct.conj"): {}, (MP, "MatrixProduct.dot"): {}, (MP, "MatrixProduct.copy"): {}, (MP, "MatrixProduct.metacopy"): {},
    (MP, "MatrixProduct.distance"): {}, (MP, "MatrixProduct.angle"): {}, (MPS, "Mps.todense"): {}, (MPDM, "MpDm.todense"): {}, (MP, "MatrixProduct.dump"): {},
    (MP, "MatrixProduct.variational_compress"): {("*", "guess", "*"): "R3 documented in the docstring: ``guess`` is overwritten (and the property text exempts the optimiser's initial guess)"},
    (MP, "MatrixProduct.to_complex"): {("write", "self", "[]"): INPL, ("write", "self", "dtype"): INPL, ("returns-alias", "self", ""): INPL},
    (MP, "MatrixProduct.scale"): {("inplace-call", "self", "to_complex"): "R3 only when inplace=True (new_mp = self if inplace else self.copy()): documented in-place mode",
                                  ("write", "self", "[]"): "R3 only when inplace=True, see above; inplace=False is audited bounded (walker: scale, mutate_result)",
                                  ("returns-alias", "self", ""): INPL},
    (MPO, "Mpo.apply"): {}, (MPO, "Mpo.contract"): {}, (MPO, "Mpo.conj_trans"): {}, (MPO, "Mpo.__matmul__"): {}, (MPO, "Mpo.todense"): {},
    (MPDM, "MpDm.apply"): {}, (MPDM, "MpDm.evolve_exact"): {}, (MPDM, "MpDm.from_mps"): {}, (MPDM, "MpDm.conj_trans"): {},
    # module-level helpers behind Mps.expand_bond_dimension / TTNS.expand_bond_dimension: `lastone = mps` aliases the input until the first product replaces it
    (MPS, "expand_bond_dimension"): {}, (MPS, "expand_bond_dimension_general"): {},
    # read-only entry points that had no clause (round 7 audit of every public method of the state / operator classes): measuring, checking, saving and
    # converting leave their arguments alone
    (MPS, "Mps.calc_2site_mutual_entropy"): {}, (MPS, "Mps.dump"): {}, (MPS, "BraKetPair.calc_ft"): {}, (MP, "MatrixProduct.dot_ob"): {},
    (MP, "MatrixProduct.check_left_canonical"): {}, (MP, "MatrixProduct.check_right_canonical"): {}, (MPO, "Mpo.is_hermitian"): {},
    (TREE, "TTNS.calc_1site_entropy"): {}, (TREE, "TTNS.calc_1dof_entropy"): {}, (TREE, "TTNS.calc_2site_entropy"): {}, (TREE, "TTNS.calc_2dof_entropy"): {},
    (TREE, "TTNS.calc_2dof_mutual_info"): {}, (TREE, "TTNS.expectation1"): {}, (TREE, "TTNBase.dump"): {}, (TREE, "TTNS.dump"): {}, (TREE, "from_mps"): {},
    (TREE, "TTNS.check_canonical"): {}, (TREE, "TTNS.is_canonical"): {}, (TREE, "TTNS.print_vn_entropy"): {},
    (TPROP, "ThermalProp.evolve_exact"): {}, (TPROP, "ThermalProp.evolve_prop"): {}, (TPROP, "ThermalProp.process_mps"): {}, (TPROP, "load_thermal_state"): {},
    (LIB, "compressed_sum"): {}, (LIB, "_sum"): {("preserving-call", "mps_list", "canonicalise"): "R1"},
    (TREE, "TTNS.evolve"): {}, (TREE, "TTNS.add"): {}, (TREE, "TTNS.scale"): {("write", "self", "root.tensor"): INPL, ("inplace-call", "self", "to_complex"): INPL, ("returns-alias", "self", ""): INPL},
    (TREE, "TTNS.copy"): {}, (TREE, "TTNS.metacopy"): {},
    (TREE, "TTNS.to_complex"): {("write", "self", "[].tensor"): INPL, ("write", "self", "[].qn"): INPL, ("returns-alias", "self", ""): INPL},
    (TREE, "TTNS.expectation"): {("write", "self", "basis.root.parent"): "R3 restores the temporary re-parenting under the dummy root (C11: roots_restored)",
                                 ("write", "self", "root.parent"): "R3 same", ("write", "ttno", "root.parent"): "R3 same",
                                 ("write", "self", "basis.root.[].parent"): "R3 same", ("write", "self", "[].parent"): "R3 same"},
    (TREE, "TTNS.calc_1site_rdm"): {}, (TREE, "TTNS.calc_1dof_rdm"): {}, (TREE, "TTNS.calc_2site_rdm"): {}, (TREE, "TTNS.calc_2dof_rdm"): {},
    (TREE, "TTNS.calc_bond_singular_values"): {}, (TREE, "TTNS.calc_bond_entropy"): {}, (TREE, "TTNS.todense"): {},
    (TREE, "TTNO.apply"): {}, (TREE, "TTNO.contract"): {}, (TREE, "TTNO.todense"): {},
    (TEVO, "evolve_prop_and_compress_tdrk4"): {("inplace-call", "ttns", "[].scale"): "R3 term 0 is the (copied, see TTNS.evolve) state scaled by (coeff tau)^0/0! = 1; evolve hands these functions a private copy"},
    (TEVO, "evolve_tdvp_vmf"): {},
}
# in-place by contract: they receive the private copy made by TTNS.evolve (whose own clause is empty)
INPLACE_BY_CONTRACT = {(TEVO, "evolve_tdvp_ps"), (TEVO, "evolve_tdvp_ps2")}


def prove(run):
    prove_clauses(run, CLAUSES)


def prove_clauses(run, clauses, what="the represented vector of an input may change"):
    idx = index()
    n_eff = 0
    for (rel, qual), clause in clauses.items():
        t0 = time.time()
        try:
            fn = idx.find(rel, qual)
        except Exception as e:
            run.oblig(f"frame:{qual}:modifies", qual, "A(effects)", "undecided", "ast-effects", 0.0, f"function not found in {rel} (stale modifies clause): {e}")
            continue
        effs = EF.analyse(fn)
        bad = []
        for eff in effs:
            ln, txt, param, kind, detail = eff
            n_eff += 1
            key = (kind, param, detail)
            why = EF.classify(eff) or clause.get(key) or clause.get((kind, param, detail.replace("[].", "").replace(".[]", ""))) or clause.get(("*", param, "*"))
            oid = f"frame:{qual}:modifies:{kind}:{param}:{detail}"
            if why:
                run.oblig(oid, qual, "A(effects)", "discharged", "ast-effects", 0.0)
            else:
                bad.append(eff)
                run.oblig(oid, qual, "A(effects)", "violated", "ast-effects", 0.0)
                run.violation(f"frame:{qual}:modifies", qual, f"statement `{txt}` ({rel}, line {fn.lineno}+{ln - fn.lineno}) {kind} on parameter '{param}' "
                              f"(path {detail}) is outside the function's modifies clause: {what}",
                              fields={"function": qual, "kind": kind, "parameter": param, "path": detail},
                              replay={"function": qual, "file": rel, "statement": txt, "effect": {"kind": kind, "parameter": param, "path": detail},
                                      "modifies_clause": {"|".join(k): v for k, v in clause.items()},
                                      "verifier_output": "effect analysis: no rule R1 (gauge-preserving callee) / R2 (non-denotation field) applies and the sidecar clause has no entry"},
                              no_input=True, engine="A(effects)")
        run.oblig(f"frame:{qual}:modifies", qual, "A(effects)", "violated" if bad else "discharged", "ast-effects", time.time() - t0)
    if n_eff == 0 and clauses is CLAUSES:
        run.crash("C13_effects: zero effects found in any function (vacuous analysis)")
    run.trusted += ["effect analysis (vk/pyvc/effects.py): in-place behaviour is identified by method name tables (MUTATING_METHODS, PRESERVING_INPLACE, MODIFYING_CALLEES); "
                    "aliases through containers other than list/tuple literals, closures and callee bodies are not tracked; R1 relies on the gauge contracts of C03/C04; "
                    "R3 entries are stated reasons, each also audited by the bounded walkers"]
