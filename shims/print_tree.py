"""Stand-in for the `print_tree` distribution (not installed in the pinned environment).
renormalizer.tn.treebase does `from print_tree import print_tree` and only uses it in
print_as_tree(), subclassing it and reading the `rows` attribute.
Part of the trusted base of the tree checks (C02/C11/C12); never used by chain checks."""


class print_tree:
    def __init__(self, root=None, *args, **kwargs):
        self.root = root
        self.rows = []
        self._build(root, 0)

    def get_children(self, node):
        return []

    def get_node_str(self, node):
        return str(node)

    def _build(self, node, depth):
        if node is None:
            return
        self.rows.append("  " * depth + str(self.get_node_str(node)))
        for c in self.get_children(node) or []:
            self._build(c, depth + 1)
