/-
Counting lemmas behind property C20 (cited in DESIGN A.1, mechanised here).

The pyvc contract of `bipartite_vertex_cover` proves, for every graph, that the returned pair of
boolean tables (cu, cv) and the matching table `m` (matchV) satisfy
  * every selected U vertex is matched            (post:selected_u_matched)
  * every selected V vertex is matched            (post:selected_v_matched)
  * every matching edge has exactly one selected endpoint (post:one_endpoint_per_matching_edge)
and that `m` is a matching of the graph (MATCHING: matched pairs are edges, no U vertex used twice).
`cover_le_of_cover` turns this into minimality: the returned selection is no larger than ANY vertex
cover (du, dv) of the same graph.  No maximality of the matching is assumed.
-/
import Mathlib.Data.Fintype.Card
import Mathlib.Data.Fintype.Sum
import Mathlib.Data.Fintype.Option

open Classical

variable {U V : Type} [Fintype U] [Fintype V]

/-- matched V vertices -/
def Matched (m : V → Option U) : Type := {v : V // (m v).isSome}

noncomputable instance (m : V → Option U) : Fintype (Matched m) := by
  unfold Matched; infer_instance

/-- |selection| ≤ |matching| : every selected vertex is matched and no matching edge has both ends selected -/
theorem selection_le_matching
    (m : V → Option U)
    (cu : U → Bool) (cv : V → Bool)
    (hsel_u : ∀ u, cu u = true → ∃ v, m v = some u)
    (hsel_v : ∀ v, cv v = true → (m v).isSome)
    (hone : ∀ v u, m v = some u → cu u ≠ cv v) :
    Fintype.card ({u : U // cu u = true} ⊕ {v : V // cv v = true}) ≤ Fintype.card (Matched m) := by
  -- send a selected u to the v it is matched with, a selected v to itself
  let f : ({u : U // cu u = true} ⊕ {v : V // cv v = true}) → Matched m := fun x =>
    match x with
    | Sum.inl u => ⟨Classical.choose (hsel_u u.1 u.2), by
        have h := Classical.choose_spec (hsel_u u.1 u.2); simp [h]⟩
    | Sum.inr v => ⟨v.1, hsel_v v.1 v.2⟩
  apply Fintype.card_le_of_injective f
  intro x y hxy
  have hval : (f x).1 = (f y).1 := congrArg Subtype.val hxy
  cases x with
  | inl u =>
    cases y with
    | inl u' =>
      have h1 := Classical.choose_spec (hsel_u u.1 u.2)
      have h2 := Classical.choose_spec (hsel_u u'.1 u'.2)
      have e : Classical.choose (hsel_u u.1 u.2) = Classical.choose (hsel_u u'.1 u'.2) := hval
      rw [e] at h1
      have : some u.1 = some u'.1 := h1.symm.trans h2
      have : u.1 = u'.1 := Option.some.inj this
      exact congrArg Sum.inl (Subtype.ext this)
    | inr v =>
      exfalso
      have h1 := Classical.choose_spec (hsel_u u.1 u.2)
      have e : Classical.choose (hsel_u u.1 u.2) = v.1 := hval
      rw [e] at h1
      have := hone v.1 u.1 h1
      rw [u.2, v.2] at this
      exact this rfl
  | inr v =>
    cases y with
    | inl u =>
      exfalso
      have h1 := Classical.choose_spec (hsel_u u.1 u.2)
      have e : v.1 = Classical.choose (hsel_u u.1 u.2) := hval
      rw [← e] at h1
      have := hone v.1 u.1 h1
      rw [u.2, v.2] at this
      exact this rfl
    | inr v' =>
      have e : v.1 = v'.1 := hval
      exact congrArg Sum.inr (Subtype.ext e)

/-- weak duality: |matching| ≤ |any cover| -/
theorem matching_le_cover
    (E : U → V → Prop) (m : V → Option U)
    (hm_edge : ∀ v u, m v = some u → E u v)
    (hm_inj : ∀ v1 v2 u, m v1 = some u → m v2 = some u → v1 = v2)
    (du : U → Bool) (dv : V → Bool)
    (hcover : ∀ u v, E u v → du u = true ∨ dv v = true) :
    Fintype.card (Matched m) ≤ Fintype.card ({u : U // du u = true} ⊕ {v : V // dv v = true}) := by
  -- send a matched v to itself when it is in the cover, otherwise to its partner (which then is)
  let g : Matched m → ({u : U // du u = true} ⊕ {v : V // dv v = true}) := fun w =>
    if h : dv w.1 = true then Sum.inr ⟨w.1, h⟩
    else Sum.inl ⟨Option.get (m w.1) w.2, by
      have he : m w.1 = some (Option.get (m w.1) w.2) := by simp
      rcases hcover _ _ (hm_edge _ _ he) with h1 | h1
      · exact h1
      · exact absurd h1 h⟩
  apply Fintype.card_le_of_injective g
  intro x y hxy
  apply Subtype.ext
  by_cases hx : dv x.1 = true
  · by_cases hy : dv y.1 = true
    · simp only [g, hx, hy, dif_pos] at hxy
      have h3 := Sum.inr.inj hxy
      exact Subtype.mk.inj h3
    · simp only [g, hx, hy, dif_pos] at hxy
      cases hxy
  · by_cases hy : dv y.1 = true
    · simp only [g, hx, hy, dif_pos] at hxy
      cases hxy
    · simp only [g, hx, hy] at hxy
      have h3 := Subtype.mk.inj (Sum.inl.inj hxy)
      have hx' : m x.1 = some (Option.get (m x.1) x.2) := by simp
      have hy' : m y.1 = some (Option.get (m y.1) y.2) := by simp
      rw [h3] at hx'
      exact hm_inj _ _ _ hx' hy'

/-- C20: the selection returned by `bipartite_vertex_cover` is a minimum vertex cover -/
theorem cover_le_of_cover
    (E : U → V → Prop) (m : V → Option U)
    (hm_edge : ∀ v u, m v = some u → E u v)
    (hm_inj : ∀ v1 v2 u, m v1 = some u → m v2 = some u → v1 = v2)
    (cu : U → Bool) (cv : V → Bool)
    (hsel_u : ∀ u, cu u = true → ∃ v, m v = some u)
    (hsel_v : ∀ v, cv v = true → (m v).isSome)
    (hone : ∀ v u, m v = some u → cu u ≠ cv v)
    (du : U → Bool) (dv : V → Bool)
    (hcover : ∀ u v, E u v → du u = true ∨ dv v = true) :
    Fintype.card {u : U // cu u = true} + Fintype.card {v : V // cv v = true}
      ≤ Fintype.card {u : U // du u = true} + Fintype.card {v : V // dv v = true} := by
  have h1 := selection_le_matching m cu cv hsel_u hsel_v hone
  have h2 := matching_le_cover E m hm_edge hm_inj du dv hcover
  rw [Fintype.card_sum] at h1 h2
  exact le_trans h1 h2

#print axioms selection_le_matching
#print axioms matching_le_cover
#print axioms cover_le_of_cover
