"""Sidecar contract for renormalizer/model/h_qc.py : the Jordan-Wigner sign loop of simplify_op (C17).

The verified text is a mechanical slice of the real function (vk/pyvc/slice.py): statements 0..3 of the body of the outer loop
`for elem_op in old_ops` (the Z count, the two counters and the inner loop over the symbols of one site), with the expression
`elem_op.split_symbol` bound to the parameter `symbols`, returning the counters and the *factor expression* that the function
passes to Op(...) as third argument (located in the rest of the loop body).

Contract: n_permute is the number of (non-Z, Z) inversions of the word, i.e. the number of anticommutations needed to move every
Z to the front; the factor is (-1)^n_permute.  Together with the lemmas below (2x2 matrix algebra, z3) this gives
mat(word) = factor * Z^(n_sigma_z mod 2) * mat(word without Z), which is what simplify_op returns for one site.
"""
import ast

from vk.pyvc.engine import Contract

REL = "renormalizer/model/h_qc.py"

INV_SPEC = "rsum(lambda i: (count_if(lambda x: x != 'Z', symbols, i) if symbols[i] == 'Z' else 0), {k})"


def factor_expr(body):
    for stmt in body:
        for n in ast.walk(stmt):
            if isinstance(n, ast.Call) and isinstance(n.func, ast.Name) and n.func.id == "Op" and len(n.args) >= 3:
                return n.args[2]
    raise ValueError("no Op(symbol, dof, factor, ...) call found in the loop body of simplify_op")


SLICE = dict(name="simplify_op__sign_loop", body_of_loop=0, stmt_range=(0, 3), params={"elem_op.split_symbol": "symbols"},
             returns=None)   # returns is built in props/C17_proof.py from factor_expr

sign_loop = Contract(
    "simplify_op__sign_loop", {"symbols": "list[str]"},
    requires=[],
    ensures=[("n_sigma_z_counts_Z", "result[0] == count_if(lambda x: x == 'Z', symbols, len(symbols))"),
             ("n_non_sigma_z_counts_the_rest", "result[1] == count_if(lambda x: x != 'Z', symbols, len(symbols))"),
             ("n_permute_is_the_number_of_inversions", "result[2] == " + INV_SPEC.format(k="len(symbols)")),
             ("factor_is_minus_one_to_the_inversions", "result[3] == (1 if (" + INV_SPEC.format(k="len(symbols)") + ") % 2 == 0 else -1)")],
    invariants={"for#0": [("S1-counters", "n_non_sigma_z == count_if(lambda x: x != 'Z', symbols, k_simple_elem_op) and n_permute == " + INV_SPEC.format(k="k_simple_elem_op") +
                           " and n_sigma_z == count_if(lambda x: x == 'Z', symbols, len(symbols))")]},
    bounds="prove")
FINGERPRINT = {"for#0": "for simple_elem_op in symbols"}
