"""Sidecar contracts for renormalizer/tn/tree.py: the recursive sweep of the tree compression (C05, trees).

`compress_recursion(snode, ttns, s_dict, temp_m_trunc)` is verified as a whole function (vk/pyvc/slice.py:whole_function) on the shape abstraction:
tree nodes are integers (a node is its own index, `ttns.node_idx` is the identity), `snode.children` / `child.children` become `ttns.children[...]`, the ghost
field `ttns.dim[m]` is the dimension of the bond from node m to its parent.  The ghost relation desc(a, m) ("m lies in the subtree of a") is an uninterpreted
predicate constrained by the tree axioms T1-T5 in the precondition (every finite rooted tree satisfies them with desc = reflexive-transitive closure of `children`).
Callees by contract: `compress_node` (cuts the bond of the given child with that child's own limit - the entry of a list is `node_idx[child]`, decided for all
tensor values by the Engine-S per-node probes and the bounded part; nothing else changes), `push_cano_to_parent` (a QR step: the bond of the node does not grow,
nothing else changes), and `compress_recursion` itself at the recursive call (its own contract).  Proved: after the recursion every bond strictly below `snode`
obeys its own limit and nothing outside that subtree has changed - for every tree.
"""
from vk.pyvc.engine import Contract

REL = "renormalizer/tn/tree.py"
RECORDS = {"TT": {"children": "list[list[int]]", "dim": "list[int]"}}
UF = {"desc": (["int", "int"], "bool")}
SUBST = {"snode.children": "ttns.children[snode]", "child.children": "ttns.children[child]"}
MUST_HIT = ("snode.children", "child.children")
PARAMS = ["snode", "ttns", "s_dict", "temp_m_trunc"]

N = "len(ttns.children)"
TREE = [
    f"len(ttns.dim) == {N}", f"len(s_dict) == {N}", f"0 <= snode and snode < {N}",
    f"all(0 <= c and c < {N} for a in range({N}) for c in ttns.children[a])",
    # T1 reflexive, T2 children's subtrees lie in the parent's, T3 nothing else does, T4 sibling subtrees are disjoint, T5 no cycles
    f"all(desc(a, a) for a in range({N}))",
    f"all(implies(desc(ttns.children[a][j], m), desc(a, m)) for a in range({N}) for j in range(len(ttns.children[a])) for m in range({N}))",
    f"all(implies(desc(a, m) and m != a, any(desc(ttns.children[a][j], m) for j in range(len(ttns.children[a])))) for a in range({N}) for m in range({N}))",
    f"all(implies(j1 != j2, not (desc(ttns.children[a][j1], m) and desc(ttns.children[a][j2], m))) for a in range({N}) for j1 in range(len(ttns.children[a])) "
    f"for j2 in range(len(ttns.children[a])) for m in range({N}))",
    f"all(not desc(ttns.children[a][j], a) for a in range({N}) for j in range(len(ttns.children[a])))",
]


def _contracts(tag, tkind, pre, lim):
    """lim: python expression for the limit of the bond of node `m`"""
    node_pre = [f"0 <= node and node < {'len(self.children)'}", "0 <= ichild and ichild < len(self.children[node])", "len(self.dim) == len(self.children)"] + \
               [p.replace("ttns.", "self.") for p in pre]
    compress_node = Contract(
        "TTNS.compress_node", {"self": "rec:TT", "node": "int", "ichild": "int", "temp_m_trunc": tkind, "cano_child": "bool"}, records=RECORDS,
        requires=node_pre,
        ensures=[("n1", f"self.dim[self.children[node][ichild]] <= {lim.replace('ttns.', 'self.').replace('[m]', '[self.children[node][ichild]]').replace('(m)', '(self.children[node][ichild])')}"),
                 ("n2", "all(self.dim[m] == old_self.dim[m] for m in range(len(self.dim)) if m != self.children[node][ichild])"),
                 ("n3", "len(self.dim) == len(old_self.dim) and self.children == old_self.children")],
        modifies=["self"], result="int",
        notes="assumed here: the bond of children[node][ichild] is cut with that child's own limit (Engine-S per-node probes / bounded part); nothing else changes")
    push = Contract(
        "TTNS.push_cano_to_parent", {"self": "rec:TT", "node": "int"}, records=RECORDS,
        requires=["0 <= node and node < len(self.children)", "len(self.dim) == len(self.children)"],
        ensures=[("p1", "self.dim[node] <= old_self.dim[node]"), ("p2", "all(self.dim[m] == old_self.dim[m] for m in range(len(self.dim)) if m != node)"),
                 ("p3", "len(self.dim) == len(old_self.dim) and self.children == old_self.children")],
        modifies=["self"], notes="assumed here: a QR step towards the parent never enlarges the bond (kernel-stub proofs of the centre pushes / C18)")
    requires = TREE + pre
    ensures = [("every_bond_below_snode_obeys_its_own_limit", f"all(implies(desc(snode, m) and m != snode, ttns.dim[m] <= {lim}) for m in range({N}))"),
               ("nothing_outside_the_subtree_changes", f"all(implies(not (desc(snode, m) and m != snode), ttns.dim[m] == old_ttns.dim[m]) for m in range({N}))"),
               ("tree_unchanged", "ttns.children == old_ttns.children and len(ttns.dim) == len(old_ttns.dim) and len(s_dict) == len(old_s_dict)")]
    kid = "ttns.children[snode][j]"
    inv = [("R0-shape", f"ttns.children == old_ttns.children and len(ttns.dim) == {N} and len(s_dict) == {N}"),
           ("R1-finished-subtrees-obey-their-limits", f"all(implies(desc({kid}, m), ttns.dim[m] <= {lim}) for j in range(k_for0) for m in range({N}))"),
           ("R2-everything-else-untouched", f"all(implies(all(not desc({kid}, m) for j in range(k_for0)), ttns.dim[m] == old_ttns.dim[m]) for m in range({N}))")]
    params = {"snode": "int", "ttns": "rec:TT", "s_dict": "list[int]", "temp_m_trunc": tkind}
    callee = Contract("compress_recursion", params, records=RECORDS, requires=[r.replace("k_for0", "0") for r in requires], ensures=ensures, modifies=["ttns", "s_dict"])
    callee.ufuncs = UF
    main = Contract(f"compress_recursion[{tag}]", params, records=RECORDS, requires=requires, ensures=ensures, invariants={"for#0": inv},
                    modifies=["ttns", "s_dict"], asserts="assume", bounds="prove")
    main.ufuncs = UF
    compress_node.ufuncs = UF
    push.ufuncs = UF
    return main, {"compress_node": compress_node, "push_cano_to_parent": push, "compress_recursion": callee}


rec_list = _contracts("list", "list[int]", [f"len(temp_m_trunc) == {N}"], "temp_m_trunc[m]")
rec_int = _contracts("int", "int", [], "temp_m_trunc")
FINGERPRINT = {"for#0": "for (ichild, child) in enumerate(snode.children)"}
