"""Sidecar contracts for renormalizer/utils/configs.py : CompressConfig kept-count family (C05).

Call sites (grep compute_m_trunc): mp.py compress -> compute_m_trunc(sigma, idx, self.to_right) with
set_bonddim(len(self)+1) beforehand, so 0 <= idx and idx+1 < len(max_dims); mp.py _update_mps ->
compute_m_trunc(sigma, cidx[0], self.to_right); tn/tree.py compress_node -> compute_m_trunc(s, idx, left=False)
with set_bonddim(len(node_list)+1).  _update_ms writes bond idx+1 when to_right else bond idx: the bond that is
truncated is therefore  idx + 1 if left else idx  (ghost `bond_truncated`, taken from the caller, not from this function).
"""
from vk.pyvc.engine import Contract

REL = "renormalizer/utils/configs.py"
RECORDS = {"CompressConfig": {"max_dims": "list[int]", "threshold": "real", "criteria": "str"}}
PARAMS_F = {"self": "rec:CompressConfig", "sigma": "list[real]", "idx": "int", "left": "bool"}
PRE_F = ["0 <= idx", "idx + 1 < len(self.max_dims)", "all(m >= 1 for m in self.max_dims)", "len(sigma) >= 1"]

fixed = Contract(
    "CompressConfig._fixed_m_trunc", PARAMS_F, requires=PRE_F, records=RECORDS,
    ensures=[("equals_min_of_limit_and_available", "result == min(self.max_dims[idx + 1 if left else idx], len(sigma))"),
             ("uses_truncated_bond", "result <= self.max_dims[idx + 1 if left else idx]"),
             ("at_most_available", "result <= len(sigma)")],
    result="int")

threshold = Contract(
    "CompressConfig._threshold_m_trunc", {"self": "rec:CompressConfig", "sigma": "list[real]"},
    requires=["0 < self.threshold", "self.threshold < 1"], records=RECORDS, consts=["np", "scipy"],
    ensures=[("between_zero_and_available", "0 <= result and result <= len(sigma)")],
    result="int",
    notes="scipy.linalg.norm is an assumed contract (result >= 0); np.sum(bool array) is the recursive count cnt "
          "(bounds lemma proved separately by induction)")

compute = Contract(
    "CompressConfig.compute_m_trunc", PARAMS_F, records=RECORDS, consts=["CompressCriteria"],
    requires=PRE_F + ["0 < self.threshold", "self.threshold < 1",
                      "self.criteria in ('CompressCriteria.threshold', 'CompressCriteria.fixed', 'CompressCriteria.both')"],
    ensures=[("at_most_available", "result <= len(sigma)"),
             ("fixed_or_both_respects_limit_of_truncated_bond",
              "implies(self.criteria == 'CompressCriteria.fixed' or self.criteria == 'CompressCriteria.both', "
              "result <= self.max_dims[idx + 1 if left else idx])"),
             ("fixed_is_exactly_min", "implies(self.criteria == 'CompressCriteria.fixed', "
              "result == min(self.max_dims[idx + 1 if left else idx], len(sigma)))"),
             ("nonnegative", "result >= 0"),
             ("fixed_keeps_at_least_one", "implies(self.criteria == 'CompressCriteria.fixed', result >= 1)")],
    result="int")

# callee contracts used at call sites inside compute_m_trunc (call by contract, not by body)
CALLEES = {
    "_fixed_m_trunc": Contract("CompressConfig._fixed_m_trunc", PARAMS_F, requires=PRE_F, records=RECORDS,
                               ensures=[("c", "result == min(self.max_dims[idx + 1 if left else idx], len(sigma))")], result="int"),
    "_threshold_m_trunc": Contract("CompressConfig._threshold_m_trunc", {"self": "rec:CompressConfig", "sigma": "list[real]"},
                                   requires=["0 < self.threshold", "self.threshold < 1"], records=RECORDS,
                                   ensures=[("c", "0 <= result and result <= len(sigma)")], result="int"),
}
