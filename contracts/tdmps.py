"""Sidecar contract for renormalizer/utils/tdmps.py : TdMpsJob.dump_dict crash safety (C14).

Ghost file system (vk/pyvc/engine.py): every path expression is a file; its state is 0 = absent, 1 = partial / unreadable,
2 + g = complete result of dump generation g.  os.remove / os.rename / os.replace are atomic (trusted POSIX semantics),
np.savez is NOT: the file is partial from the moment the write starts until it completes.  A crash may happen before every
file-system call and in the middle of np.savez: at each such point the executor emits the obligation `crash_invariant`.
The call is analysed from EVERY initial directory state that satisfies the invariant - in particular the states a previous
crash of any protocol version can leave behind (result file partial and backup complete, both complete, stale temporary file ...).
`__gen__` is the (ghost) generation of this dump; complete files present at entry belong to earlier generations.
Abstracted: the optional MPS dump at the end (`if self._dump_mps is not None`) writes to a different path (mps_path) and does not
touch the result file, its backup or the temporary file (assumed, see MatrixProduct.dump).
"""
from vk.pyvc.engine import Contract

REL = "renormalizer/utils/tdmps.py"
F = "os.path.join(self.dump_dir, self.job_name + '.npz')"
B = F + " + '.bak'"
RECORDS = {"Job": {"dump_dir": "sym", "job_name": "sym", "_defined_output_path": "bool", "_dump_mps": "sym", "latest_mps": "sym", "evolve_times": "sym"}}

INV = f"(fstate({F}) >= 2) or (fstate({B}) >= 2)"

dump_dict = Contract(
    "TdMpsJob.dump_dict", {"self": "rec:Job"}, records=RECORDS, consts=["os", "np"], ghost={"__gen__": "int"},
    requires=["__gen__ >= 1", "self._defined_output_path",
              # a complete result file of an earlier generation exists (this is not the very first dump)
              f"(fstate({F}) >= 2 and fstate({F}) < 2 + __gen__) or (fstate({B}) >= 2 and fstate({B}) < 2 + __gen__)",
              f"fstate({F}) < 2 + __gen__ and fstate({B}) < 2 + __gen__"],
    ensures=[("current_step_is_the_result_file", f"fstate({F}) == 2 + __gen__"),
             ("backup_removed", f"fstate({B}) == 0"),
             ("no_temporary_file_left", f"fstate({F} + '.tmp.npz') == 0")],
    abstract={"If@self._dump_mps": {"havoc": {}, "assume": []}},
    notes="crash invariant: at every instant a complete loadable result file (this or an earlier dump) exists among {F, F.bak}")
dump_dict.crash_invariant = INV
CALLEES = {"get_dump_dict": Contract("TdMpsJob.get_dump_dict", {"self": "rec:Job"}, records=RECORDS, requires=[], ensures=[], result=None)}

# first dump into an empty (or junk-only) directory: nothing to lose, but afterwards the result must be there
first_dump = Contract(
    "TdMpsJob.dump_dict", {"self": "rec:Job"}, records=RECORDS, consts=["os", "np"], ghost={"__gen__": "int"},
    requires=["__gen__ >= 1", "self._defined_output_path", f"fstate({F}) < 2 and fstate({B}) < 2"],
    ensures=[("current_step_is_the_result_file", f"fstate({F}) == 2 + __gen__")],
    abstract={"If@self._dump_mps": {"havoc": {}, "assume": []}})
