"""Sidecar contracts for renormalizer/mps/mp.py (C03/C04/C06): centre moves and sweep discipline.

Representation invariant QNV (DESIGN §8) over an *arbitrary* tensor support: supp(i,l,s,r) says that entry (l, sigma=s, r) of
site i is non-zero, sig(i,s) is the charge of physical configuration s of site i; both are uninterpreted, so the proofs hold for
every tensor content, every physical dimension and every bond dimension.  Labels are one integer component (the code acts
componentwise).  `site_num` (a property: len(self._mp)) is modelled as a field.
Call sites of move_qnidx (grep): mp.py ensure_left/right_canonical, add, Mpo.apply (twice), Mps.hartree_product_state with the
transient centre qnidx == site_num, gs.py / mps.py evolution set-up.
"""
from vk.pyvc.engine import Contract

REL = "renormalizer/mps/mp.py"
RECORDS = {"MP": {"qn": "list[lab]", "qnidx": "int", "qntot": "int", "site_num": "int", "to_right": "bool"}}


def qnv(qn, c, n="self.site_num", Q="self.qntot"):
    return (f"all(implies(supp(i, l, s, r), "
            f"(implies(i < {c}, {qn}[i][l] + sig(i, s) == {qn}[i + 1][r])) and "
            f"(implies(i == {c}, {qn}[i][l] + sig(i, s) + {qn}[i + 1][r] == {Q})) and "
            f"(implies(i > {c}, {qn}[i][l] == sig(i, s) + {qn}[i + 1][r]))) "
            f"for i in range({n}) for l in INT for s in INT for r in INT)")


UF = {"supp": (["int", "int", "int", "int"], "bool"), "sig": (["int", "int"], "int")}

move_qnidx = Contract(
    "MatrixProduct.move_qnidx", {"self": "rec:MP", "dstidx": "int"}, records=RECORDS,
    requires=["self.site_num >= 1", "len(self.qn) == self.site_num + 1", "0 <= self.qnidx", "self.qnidx <= self.site_num",
              "0 <= dstidx", "dstidx <= self.site_num", qnv("self.qn", "self.qnidx")],
    ensures=[("centre_is_destination", "self.qnidx == dstidx"),
             ("qn_valid_at_destination", qnv("self.qn", "dstidx")),
             ("number_of_bonds_unchanged", "len(self.qn) == self.site_num + 1"),
             ("bonds_left_of_both_centres_untouched",
              "all(self.qn[b][r] == old_self.qn[b][r] for b in range(self.site_num + 1) for r in INT if b <= old_self.qnidx and b <= dstidx)")],
    invariants={
        "for#0": [("L1-flipped-prefix",
                   "len(self.qn) == self.site_num + 1 and self.qnidx == old_self.qnidx and self.qntot == old_self.qntot and "
                   "self.site_num == old_self.site_num and "
                   "all(self.qn[b][r] == (self.qntot - old_self.qn[b][r] if (self.qnidx < b and b <= self.qnidx + k_idx) else old_self.qn[b][r]) "
                   "for b in range(self.site_num + 1) for r in INT)")],
        "for#1": [("L2-flipped-back-suffix",
                   "len(self.qn) == self.site_num + 1 and self.qnidx == old_self.qnidx and self.qntot == old_self.qntot and "
                   "self.site_num == old_self.site_num and "
                   "all(self.qn[b][r] == (old_self.qn[b][r] if ((self.qnidx < b) == (b > self.site_num - k_idx)) else self.qntot - old_self.qn[b][r]) "
                   "for b in range(self.site_num + 1) for r in INT)")],
    },
    modifies=["self"])
move_qnidx.ufuncs = UF
FINGERPRINT_MOVE = {"for#0": "for idx in range(self.qnidx + 1, self.site_num + 1)",
                    "for#1": "for idx in range(self.site_num, dstidx, -1)"}

# ------------------------------------------------------------------------------------------------ sweep discipline (C04)
# `den` is a ghost field: the represented dense object (abstract id); callee contracts state that gauge moves keep it.
RECORDS_S = {"MP": {"qnidx": "int", "site_num": "int", "to_right": "bool", "den": "int"}}

push_cano = Contract(
    "MatrixProduct._push_cano", {"self": "rec:MP", "idx": "int"}, records=RECORDS_S,
    requires=["idx == self.qnidx", "0 <= idx", "idx < self.site_num", "implies(self.to_right, idx + 1 < self.site_num)",
              "implies(not self.to_right, idx >= 1)"],
    ensures=[("c1", "self.qnidx == (idx + 1 if old_self.to_right else idx - 1)"), ("c2", "self.to_right == old_self.to_right"),
             ("c3", "self.site_num == old_self.site_num"), ("c4", "self.den == old_self.den")],
    modifies=["self"],
    notes="assumed here (call by contract); its own body is numeric (svd_qn + _update_ms): checked by the bounded engine and Engine S")

switch_direction = Contract(
    "MatrixProduct._switch_direction", {"self": "rec:MP"}, records=RECORDS_S, requires=["self.site_num >= 1"],
    ensures=[("flips_direction", "self.to_right == (not old_self.to_right)"),
             ("centre_at_far_end", "self.qnidx == (self.site_num - 1 if old_self.to_right else 0)"),
             ("frame", "self.site_num == old_self.site_num and self.den == old_self.den")],
    modifies=["self"])

# move_qnidx seen from the sweep discipline: only labels change (its full contract, incl. QNV at the destination, is `move_qnidx` above, proved for C03/C06)
move_qnidx_sweep = Contract(
    "MatrixProduct.move_qnidx", {"self": "rec:MP", "dstidx": "int"}, records=RECORDS_S,
    requires=["0 <= dstidx", "dstidx <= self.site_num"],
    ensures=[("m1", "self.qnidx == dstidx"), ("m2", "self.to_right == old_self.to_right"), ("m3", "self.site_num == old_self.site_num"), ("m4", "self.den == old_self.den")],
    modifies=["self"], notes="call by contract; proved from the current source under the contract `move_qnidx` (C03_proof)")

iter_idx_list_visits = Contract(
    "MatrixProduct.canonicalise", {"self": "rec:MP", "stop_idx": "opt[int]"}, records=RECORDS_S,
    # since the fix "canonicalise starts from any qn centre" the centre is moved to the sweep start by the function itself: no precondition on qnidx
    requires=["self.site_num >= 1", "0 <= self.qnidx", "self.qnidx < self.site_num",
              "implies(stop_idx is not None, 0 <= stop_idx and stop_idx < self.site_num)"],
    ensures=[("dense_unchanged", "self.den == old_self.den"),
             ("full_sweep_ends_at_far_end_and_flips",
              "implies(stop_idx is None and self.site_num >= 2, self.to_right == (not old_self.to_right) and "
              "self.qnidx == (self.site_num - 1 if old_self.to_right else 0))"),
             ("single_site_is_noop", "implies(self.site_num == 1, self.qnidx == 0 and self.to_right == old_self.to_right)"),
             ("partial_sweep_stops_at_stop_idx", "implies(stop_idx is not None, self.qnidx == stop_idx)"),
             ("partial_sweep_flips_only_at_far_end_after_moving",
              "implies(stop_idx is not None, self.to_right == (old_self.to_right != "
              "(stop_idx != (0 if old_self.to_right else self.site_num - 1) and stop_idx == (self.site_num - 1 if old_self.to_right else 0))))"),
             ("number_of_sites_unchanged", "self.site_num == old_self.site_num")],
    invariants={"for#0": [("S1-centre-follows-sweep",
                           "self.site_num == old_self.site_num and self.to_right == old_self.to_right and self.den == old_self.den and "
                           "self.qnidx == (k_idx if self.to_right else self.site_num - 1 - k_idx)")]},
    modifies=["self"], inline={"iter_idx_list": "MatrixProduct.iter_idx_list", "_switch_direction": "MatrixProduct._switch_direction"})
canonicalise = iter_idx_list_visits
CALLEES_CANO = {"_push_cano": push_cano, "move_qnidx": move_qnidx_sweep}
FINGERPRINT_CANO = {"for#0": "for idx in idx_list"}

# ------------------------------------------------------------------------------------------------ compress: which limit applies to which bond (C04)
# Mechanical slice of the sweep loop of MatrixProduct.compress: the statement `if temp_m_trunc is None: ... else: ...` that selects the
# truncation for the bond cut at site idx.  The SVD of site idx with system "L" (to_right) keeps (left bond, sigma) as rows, so the bond
# that is truncated is the *right* bond of the site, bond idx + 1 in the bond_dims convention; with system "R" it is the left bond, idx.
# (That convention is svd_qn's and is assumed; C18 checks svd_qn itself.)  The property's lossless clause quantifies "a bond limit at least
# as large as its Schmidt rank" per bond, so the limit used must be the entry of that very bond.
def compress_limit_stmt(body):
    for i, st in enumerate(body):
        import ast as _ast
        if isinstance(st, _ast.If) and _ast.unparse(st.test) == "temp_m_trunc is None":
            return i
    raise ValueError("no `if temp_m_trunc is None` statement in the sweep loop of compress")


SLICE_COMPRESS = dict(name="compress__limit_of_cut_bond", body_of_loop=0,
                      params={"temp_m_trunc": "temp_m_trunc", "idx": "idx", "self.to_right": "to_right", "len(sigma)": "nsigma",
                              "self.compress_config.compute_m_trunc(sigma, idx, self.to_right)": "cfg_m"})
# _Subst works bottom-up, so `self.to_right` inside the call above has already become `to_right` when the call is matched
SLICE_COMPRESS["params"]["self.compress_config.compute_m_trunc(sigma, idx, to_right)"] = "cfg_m"
compress_limit_list = Contract(
    "compress__limit_of_cut_bond[list]", {"temp_m_trunc": "list[int]", "idx": "int", "to_right": "bool", "nsigma": "int", "cfg_m": "int"},
    requires=["nsigma >= 0", "0 <= idx", "idx + 1 < len(temp_m_trunc)"],
    ensures=[("limit_of_the_bond_being_cut", "result == min(temp_m_trunc[idx + 1 if to_right else idx], nsigma)"),
             ("never_more_than_available", "result <= nsigma")],
    bounds="prove")
compress_limit_int = Contract(
    "compress__limit_of_cut_bond[int]", {"temp_m_trunc": "int", "idx": "int", "to_right": "bool", "nsigma": "int", "cfg_m": "int"},
    requires=["nsigma >= 0", "0 <= idx"],
    ensures=[("uniform_limit", "result == min(temp_m_trunc, nsigma)")], bounds="prove")
compress_limit_none = Contract(
    "compress__limit_of_cut_bond[None]", {"temp_m_trunc": "opt[int]", "idx": "int", "to_right": "bool", "nsigma": "int", "cfg_m": "int"},
    requires=["temp_m_trunc is None", "nsigma >= 0", "0 <= idx"],
    ensures=[("configured_limit", "result == cfg_m")], bounds="prove")

# ------------------------------------------------------------------------------------------------ canonical-form checks (C04)
# check_left_canonical / check_right_canonical: whole-function extraction (vk/pyvc/slice.py:whole_function) with `len(self)` -> n and the per-site test
# `self[i].check_lortho(rtol, atol)` -> ortho[i] (the numeric per-site isometry test is an assumed predicate; C18/C04 bounded parts own it).
# The contract is the definition of the canonical forms: EVERY site except the one carrying the centre (last for left-, first for right-canonical) is tested.
check_left = Contract(
    "MatrixProduct.check_left_canonical", {"n": "int", "ortho": "list[bool]"}, requires=["n >= 1", "len(ortho) == n"],
    ensures=[("true_iff_every_site_but_the_last_is_a_left_isometry", "result == all(ortho[k] for k in range(n - 1))")],
    invariants={"for#0": [("C1-sites-seen-are-isometries", "all(ortho[k] for k in range(k_i))")]}, result="bool", bounds="prove")
check_right = Contract(
    "MatrixProduct.check_right_canonical", {"n": "int", "ortho": "list[bool]"}, requires=["n >= 1", "len(ortho) == n"],
    ensures=[("true_iff_every_site_but_the_first_is_a_right_isometry", "result == all(ortho[k] for k in range(1, n))")],
    invariants={"for#0": [("C1-sites-seen-are-isometries", "all(ortho[k] for k in range(1, 1 + k_i))")]}, result="bool", bounds="prove")
CHECK_SLICES = {
    "left": dict(qual="MatrixProduct.check_left_canonical", contract=check_left, subst={"len(self)": "n", "self[i].check_lortho(rtol, atol)": "ortho[i]"},
                 must_hit=("len(self)", "self[i].check_lortho(rtol, atol)")),
    "right": dict(qual="MatrixProduct.check_right_canonical", contract=check_right, subst={"len(self)": "n", "self[i].check_rortho(rtol, atol)": "ortho[i]"},
                  must_hit=("len(self)", "self[i].check_rortho(rtol, atol)")),
}

# ------------------------------------------------------------------------------------------------ compress: whole sweep on the shape abstraction (C05/C04)
# Whole-function extraction of MatrixProduct.compress (vk/pyvc/slice.py:whole_function).  The numeric values are abstracted, the *shape* is kept:
# ghost field `bond` = bond_dims (len site_num + 1).  Substituted sub-expressions (by source text; anything else is executed as written):
#   len(self) -> self.site_num, self[idx] -> 0, self.total_bytes -> 1, self.is_mpo / self.is_left_canonical -> parameters, the canonical-form checks -> True,
#   _get_big_qn -> a dummy triple, the svd_qn call -> a tuple whose two sigma slots are sigmas[idx] (one spectrum per site, any length >= 0), v.T -> 0,
#   set_bonddim(...) -> None.
# Callees by contract: compress_config.compute_m_trunc (proved in C05_proof: `configs.compute`), _update_ms (shape effect: the cut bond gets
# min(m_trunc, len(sigma)) entries and the centre moves one site; assumed here, its bookkeeping is decided by Engine S in kernel-stub mode and by the
# structural link in C05_proof), iter_idx_list and _switch_direction inlined from the current source.
RECORDS_C = {"CompressConfig": {"max_dims": "list[int]", "threshold": "real", "criteria": "str", "bonddim_should_set": "bool"},
             "MP": {"qnidx": "int", "site_num": "int", "to_right": "bool", "bond": "list[int]", "qntot": "int", "compress_config": "rec:CompressConfig"}}
COMPRESS_SUBST = {
    "len(self)": "self.site_num",
    "self[idx]": "0",
    "self.total_bytes": "1",
    "self.is_mpo": "is_mpo",
    "self.is_left_canonical": "is_left_canonical",
    "self.check_left_canonical()": "True",
    "self.check_right_canonical()": "True",
    "self._get_big_qn([idx])": "(0, 0, 0)",
    "svd_qn.svd_qn(mt.array, qnbigl, qnbigr, self.qntot, system=system, full_matrices=False)": "(0, sigmas[idx], 0, 0, sigmas[idx], 0)",
    "v.T": "0",
    "self.compress_config.set_bonddim(self.site_num + 1)": "None",
}
COMPRESS_MUST_HIT = ("self[idx]", "self._get_big_qn([idx])",
                     "svd_qn.svd_qn(mt.array, qnbigl, qnbigr, self.qntot, system=system, full_matrices=False)", "v.T")
COMPRESS_PARAMS = ["self", "temp_m_trunc", "ret_s", "is_mpo", "is_left_canonical", "sigmas"]

update_ms_shape = Contract(
    "MatrixProduct._update_ms",
    {"self": "rec:MP", "idx": "int", "u": "int", "vt": "int", "sigma": "list[real]", "qnlset": "int", "qnrset": "int", "m_trunc": "int"},
    records=RECORDS_C,
    requires=["idx == self.qnidx", "0 <= idx", "idx < self.site_num", "m_trunc >= 0",
              "implies(self.to_right, idx + 1 < self.site_num)", "implies(not self.to_right, idx >= 1)", "len(self.bond) == self.site_num + 1"],
    ensures=[("u1", "self.qnidx == (idx + 1 if old_self.to_right else idx - 1)"), ("u2", "self.to_right == old_self.to_right"),
             ("u3", "self.site_num == old_self.site_num and len(self.bond) == len(old_self.bond) and self.qntot == old_self.qntot"),
             ("u4", "self.bond[idx + 1 if old_self.to_right else idx] == min(m_trunc, len(sigma))"),
             ("u5", "all(self.bond[b] == old_self.bond[b] for b in range(len(self.bond)) if b != (idx + 1 if old_self.to_right else idx))"),
             ("u6", "self.compress_config.max_dims == old_self.compress_config.max_dims and self.compress_config.criteria == old_self.compress_config.criteria "
                    "and self.compress_config.threshold == old_self.compress_config.threshold")],
    modifies=["self"],
    notes="shape effect of the truncate-and-absorb update: u[:, :m_trunc] keeps min(m_trunc, #columns) columns, #columns = len(sigma)")

compute_m_trunc_callee = Contract(
    "CompressConfig.compute_m_trunc", {"self": "rec:CompressConfig", "sigma": "list[real]", "idx": "int", "left": "bool"}, records=RECORDS_C,
    requires=["0 <= idx", "idx + 1 < len(self.max_dims)", "all(m >= 1 for m in self.max_dims)", "len(sigma) >= 1", "0 < self.threshold", "self.threshold < 1",
              "self.criteria in ('CompressCriteria.threshold', 'CompressCriteria.fixed', 'CompressCriteria.both')"],
    ensures=[("k1", "result <= len(sigma)"), ("k2", "result >= 0"),
             ("k3", "implies(self.criteria == 'CompressCriteria.fixed' or self.criteria == 'CompressCriteria.both', result <= self.max_dims[idx + 1 if left else idx])")],
    result="int", notes="proved from the current source in C05_proof (configs.compute); used here by contract")

_SWEPT = "((1 <= b and b <= k_idx) if self.to_right else (self.site_num - k_idx <= b and b <= self.site_num - 1))"
_COMMON_INV = ("self.site_num == old_self.site_num and self.to_right == old_self.to_right and len(self.bond) == self.site_num + 1 and "
               "self.qnidx == (k_idx if self.to_right else self.site_num - 1 - k_idx) and "
               "self.compress_config.max_dims == old_self.compress_config.max_dims and self.compress_config.criteria == old_self.compress_config.criteria and "
               "self.compress_config.threshold == old_self.compress_config.threshold and "
               "self.bond[0] == old_self.bond[0] and self.bond[self.site_num] == old_self.bond[self.site_num]")
_COMMON_PRE = ["self.site_num >= 1", "len(self.bond) == self.site_num + 1", "0 <= self.qnidx", "self.qnidx < self.site_num",
               "self.qnidx == (0 if self.to_right else self.site_num - 1)",      # the function's own entry assertions
               "len(sigmas) == self.site_num", "all(len(s) >= 1 for s in sigmas)", "not ret_s", "not self.compress_config.bonddim_should_set"]
_COMMON_POST = [("direction_switched", "self.to_right == (not old_self.to_right)"),
                ("centre_at_far_end", "self.qnidx == (self.site_num - 1 if old_self.to_right else 0)"),
                ("boundary_bonds_untouched", "self.bond[0] == old_self.bond[0] and self.bond[self.site_num] == old_self.bond[self.site_num]"),
                ("number_of_sites_unchanged", "self.site_num == old_self.site_num and len(self.bond) == self.site_num + 1")]


def _compress_contract(tag, tkind, pre, limit_of_b):
    c = Contract(
        f"MatrixProduct.compress[{tag}]",
        {"self": "rec:MP", "temp_m_trunc": tkind, "ret_s": "bool", "is_mpo": "bool", "is_left_canonical": "bool", "sigmas": "list[list[real]]"},
        records=RECORDS_C, consts=["np", "svd_qn", "logger"],
        requires=_COMMON_PRE + pre,
        ensures=_COMMON_POST + [("every_interior_bond_obeys_its_own_limit",
                                 f"all(self.bond[b] <= {limit_of_b} for b in range(1, self.site_num))")],
        invariants={"for#0": [("W1-shape-and-centre", _COMMON_INV),
                              ("W2-swept-bonds-obey-their-limit", f"all(self.bond[b] <= {limit_of_b} for b in range(self.site_num + 1) if {_SWEPT})")]},
        modifies=["self"], asserts="prove", bounds="prove",
        inline={"iter_idx_list": "MatrixProduct.iter_idx_list", "_switch_direction": "MatrixProduct._switch_direction"})
    c.local_kinds = {"s_list": "list[list[real]]"}
    return c


compress_list = _compress_contract("list", "list[int]", ["len(temp_m_trunc) == self.site_num + 1", "all(m >= 0 for m in temp_m_trunc)"], "temp_m_trunc[b]")
compress_int = _compress_contract("int", "int", ["temp_m_trunc >= 0"], "temp_m_trunc")
compress_cfg = _compress_contract(
    "config", "opt[int]",
    ["temp_m_trunc is None", "len(self.compress_config.max_dims) == self.site_num + 1", "all(m >= 1 for m in self.compress_config.max_dims)",
     "0 < self.compress_config.threshold", "self.compress_config.threshold < 1",
     "self.compress_config.criteria in ('CompressCriteria.fixed', 'CompressCriteria.both')"],
    "self.compress_config.max_dims[b]")
CALLEES_COMPRESS = {"_update_ms": update_ms_shape, "compute_m_trunc": compute_m_trunc_callee}
FINGERPRINT_COMPRESS = {"for#0": "for idx in self.iter_idx_list(full=False)"}
