"""Sidecar contract for renormalizer/tn/treebase.py: approximate_partition (C02/C11).

Call sites: BasisTree.general_mctdh (recursion over groups of nodes, ngroups = tree_order >= 2), BasisTree.t3ns (ngroups 3 and 2).
The result is a list of `ngroups` consecutive slices of `sequence` that together cover it: together with the (cited, trivial) lemma
"consecutive slices [c_j, c_{j+1}) with c_0 = 0 and c_g = L concatenate to the sequence" this gives concat(result) == sequence,
i.e. every basis set is kept exactly once and in order.
"""
from vk.pyvc.engine import Contract

REL = "renormalizer/tn/treebase.py"

SLICES = ("len(ret) == {k} and all(len(ret[j]) == min((j + 1) * size, len(sequence)) - min(j * size, len(sequence)) and "
          "all(ret[j][t] == sequence[j * size + t] for t in range(len(ret[j]))) for j in range({k}))")

approximate_partition = Contract(
    "approximate_partition", {"sequence": "list[int]", "ngroups": "int"},
    requires=["ngroups >= 1"],
    ensures=[("number_of_groups", "len(result) == ngroups"),
             ("groups_are_consecutive_slices", SLICES.replace("ret", "result").format(k="ngroups")),
             ("slices_cover_the_sequence", "ngroups * size >= len(sequence) and size >= 0"),
             ("group_sizes_differ_by_at_most_the_last", "all(len(result[j]) <= size for j in range(ngroups))")],
    invariants={"for#0": [("P1-consecutive-slices", "size == (len(sequence) - 1) // ngroups + 1 and size >= 0 and " + SLICES.format(k="k_i"))]},
    bounds="prove")
approximate_partition.local_kinds = {"ret": "list[list[int]]"}
FINGERPRINT = {"for#0": "for i in range(ngroups)"}
