"""Sidecar contract for renormalizer/lib/bipartite_matching/bipartite_matching.py (C20).

Call sites (grep): renormalizer/mps/symbolic_mpo.py:_decompose_graph calls
bipartite_vertex_cover(bigraph, algo) with bigraph = adjacency lists of the non-redundant term matrix.

The function is verified from the point where a matching `matchV` is available: the `if algo == ...`
statement (SciPy Hopcroft-Karp / recursive Hungarian `augment`) is *abstracted* by the assumed contract
MATCHING below (assumed, monitored at run time by Engine B on exhaustive small graphs).  Maximality is
NOT assumed for the partial-correctness obligations; it is assumed (through the ghost predicate `reach`,
DESIGN A.1) only for the obligations that the two `assert`s inside new_konig never fire.
"""
from vk.pyvc.engine import Contract

REL = "renormalizer/lib/bipartite_matching/bipartite_matching.py"

MATCHING = [
    "nU == len(bigraph)",
    "nV == len(matchV)",
    "all(0 <= v and v < nV for uu in range(nU) for v in bigraph[uu])",
    # matchV is a matching of bigraph: matched pairs are edges, no U vertex is used twice
    "all(implies(matchV[v] is not None, 0 <= matchV[v] and matchV[v] < nU and v in bigraph[matchV[v]]) for v in range(nV))",
    "all(implies(matchV[v1] is not None and matchV[v1] == matchV[v2], v1 == v2) for v1 in range(nV) for v2 in range(nV))",
]

# ghost predicate reach (alternating reachability from free U vertices) + no augmenting path
REACH = [
    "len(reach) == nU",
    "all(reach[uu] for uu in range(nU) if not any(matchV[v] == uu for v in range(nV)))",
    "all(implies(reach[uu] and matchV[v] is not None, reach[matchV[v]]) for uu in range(nU) for v in bigraph[uu])",
    "all(matchV[v] is not None for uu in range(nU) if reach[uu] for v in bigraph[uu])",
]

I0 = "len(visitU) == nU and len(visitV) == nV and all(0 <= x and x < nU for x in wait_u)"
I2 = "all(visitU[uu] or uu in wait_u for uu in range(nU) if not any(matchV[v] == uu for v in range(nV)))"
I3 = "all(matchV[v] is not None and (visitU[matchV[v]] or matchV[v] in wait_u) for v in range(nV) if visitV[v])"
I4 = "all(visitV[v] for v in range(nV) if matchV[v] is not None and (visitU[matchV[v]] or matchV[v] in wait_u))"
I5 = "all(not visitU[x] for x in wait_u)"
IR = "all(reach[uu] for uu in range(nU) if visitU[uu] or uu in wait_u)"

OUTER = [
    ("I0-ranges", I0),
    ("I1-processed-u-neighbours-visited",
     "all(visitV[v] for uu in range(nU) if visitU[uu] and uu not in wait_u for v in bigraph[uu])"),
    ("I2-free-u-visited-or-waiting", I2),
    ("I3-visited-v-matched-partner-seen", I3),
    ("I4-seen-partner-implies-v-visited", I4),
    ("I5-waiting-not-visited", I5),
]
INNER = [
    ("J0-ranges", I0 + " and 0 <= u and u < nU and visitU[u] and u not in wait_u"),
    ("J1-other-processed-u-neighbours-visited",
     "all(visitV[v] for uu in range(nU) if visitU[uu] and uu not in wait_u and uu != u for v in bigraph[uu])"),
    ("J1b-prefix-of-current-u", "all(visitV[bigraph[u][j]] for j in range(k_v))"),
    ("I2-free-u-visited-or-waiting", I2),
    ("I3-visited-v-matched-partner-seen", I3),
    ("I4-seen-partner-implies-v-visited", I4),
    ("I5-waiting-not-visited", I5),
]

MU = [("M0-matchU-length", "len(matchU) == nU")]

ENSURES = [
    ("table_lengths", "len(result[0]) == nU and len(result[1]) == nV"),
    ("is_cover", "all(result[0][uu] or result[1][v] for uu in range(nU) for v in bigraph[uu])"),
    ("selected_u_matched", "all(any(matchV[v] == uu for v in range(nV)) for uu in range(nU) if result[0][uu])"),
    ("selected_v_matched", "all(matchV[v] is not None for v in range(nV) if result[1][v])"),
    ("one_endpoint_per_matching_edge",
     "all(result[0][matchV[v]] != result[1][v] for v in range(nV) if matchV[v] is not None)"),
]

ABSTRACT = {"If#0": {"havoc": {"matchV": "list[opt[int]]", "nU": "int", "nV": "int"}, "assume": MATCHING}}

# the expected loop headers (fingerprint): a different structure makes the contract stale -> undecided, never violated
FINGERPRINT = {"for#0": "for v in range(nV)", "for#1": "for u in range(nU)",
               "while#0": "while len(wait_u) > 0", "for#2": "for v in bigraph[u]"}

# partial correctness: the two asserts are assumed on the normal path; no maximality needed
partial = Contract(
    "bipartite_vertex_cover", {"bigraph": "list[list[int]]", "algo": "str"},
    requires=[], ensures=ENSURES,
    invariants={"for#0": MU, "while#0": OUTER, "for#2": INNER},
    abstract=ABSTRACT, asserts="assume",
    notes="partial correctness: result is a cover with exactly one selected endpoint per matching edge "
          "=> |cover| = |matching| => (weak duality) minimum cover",
)

# total w.r.t. the asserts: they never fire when the matching admits no augmenting path
ABSTRACT_T = {"If#0": {"havoc": {"matchV": "list[opt[int]]", "nU": "int", "nV": "int"}, "assume": MATCHING + REACH}}
total = Contract(
    "bipartite_vertex_cover", {"bigraph": "list[list[int]]", "algo": "str"},
    requires=[], ensures=[],
    invariants={"for#0": MU, "while#0": OUTER + [("IR-seen-u-reachable", IR)], "for#2": INNER + [("IR-seen-u-reachable", IR)]},
    abstract=ABSTRACT_T, asserts="prove", ghost={"reach": "list[bool]"},
    notes="asserts never fire under ghost predicate reach closed under alternating paths and no augmenting path",
)


# ------------------------------------------------------------------------------------------------------------------
# The Hungarian matching producer: `augment` (recursive) and `max_bipartite_matching2` are under contract themselves,
# so MATCHING is *proved* for algo="Hungarian" (it stays an assumed contract only for SciPy's Hopcroft-Karp).
# Recursion is handled by the function's own contract (call by contract at the recursive call site).
#
# augment(u, bigraph, visit, match) - entry: `match` is a matching; u is free or matched at a slot that is already visited
# (the caller's slot, which the caller overwrites after a successful return).  While the recursion unwinds `u` may appear
# twice: at its old slot and at its new one.  That is the only duplicate (E5).  Positions visited at entry never change
# (E6); a changed position holds u or a value taken from a position that was unvisited at entry (E7).
AUG_PARAMS = {"u": "int", "bigraph": "list[list[int]]", "visit": "list[bool]", "match": "list[opt[int]]"}
AUG_SHAPE = [
    "0 <= u and u < len(bigraph)",
    "len(visit) == len(match)",
    "all(0 <= v and v < len(match) for uu in range(len(bigraph)) for v in bigraph[uu])",
]
VALID = "all(implies(match[v] is not None, 0 <= match[v] and match[v] < len(bigraph) and v in bigraph[match[v]]) for v in range(len(match)))"
INJ = "all(implies(match[v1] is not None and match[v1] == match[v2], v1 == v2) for v1 in range(len(match)) for v2 in range(len(match)))"
AUG_REQUIRES = AUG_SHAPE + [VALID, INJ,
                            "all(implies(match[v] == u, visit[v]) for v in range(len(match)))"]
AUG_ENSURES = [
    ("E0-lengths", "len(match) == len(old_match) and len(visit) == len(old_visit)"),
    ("E1-matched-pairs-are-edges", VALID),
    ("E2-visit-monotone", "all(implies(old_visit[v], visit[v]) for v in range(len(match)))"),
    ("E3-failure-leaves-match-unchanged", "implies(not result, all(match[v] == old_match[v] for v in range(len(match))))"),
    ("E5-only-duplicate-is-u-at-its-old-slot",
     "all(implies(match[v1] is not None and match[v1] == match[v2] and v1 != v2, "
     "match[v1] == u and (old_match[v1] == u or old_match[v2] == u)) for v1 in range(len(match)) for v2 in range(len(match)))"),
    ("E6-visited-positions-unchanged", "all(implies(old_visit[v], match[v] == old_match[v]) for v in range(len(match)))"),
    ("E7-new-values-come-from-unvisited-positions",
     "all(implies(match[v] != old_match[v] and match[v] != u, "
     "any(old_match[w] == match[v] and not old_visit[w] for w in range(len(match)))) for v in range(len(match)))"),
    ("E9-matched-u-stay-matched", "all(implies(old_match[v] is not None, any(match[w] == old_match[v] for w in range(len(match)))) for v in range(len(match)))"),
    ("E8-success-matches-u", "implies(result, any(match[v] == u and not old_visit[v] for v in range(len(match))))"),
]
AUG_LOOP = [
    ("L0-lengths", "len(match) == len(old_match) and len(visit) == len(old_visit)"),
    ("L1-match-unchanged-so-far", "all(match[v] == old_match[v] for v in range(len(match)))"),
    ("L2-visit-monotone", "all(implies(old_visit[v], visit[v]) for v in range(len(match)))"),
]
augment_callee = Contract("augment", AUG_PARAMS, requires=AUG_REQUIRES, ensures=AUG_ENSURES, modifies=["visit", "match"], result="bool")
augment = Contract("augment", AUG_PARAMS, requires=AUG_REQUIRES, ensures=AUG_ENSURES, modifies=["visit", "match"], result="bool",
                   invariants={"for#0": AUG_LOOP},
                   notes="recursive call by the function's own contract; partial correctness (termination: every call marks an unvisited v)")
AUG_FINGERPRINT = {"for#0": "for v in bigraph[u]"}

# max_bipartite_matching2(bigraph): the result is a matching of bigraph with len(result) = 1 + largest V index
NV_STMT = "nV = max((max(adjlist, default=-1) for adjlist in bigraph), default=-1) + 1"     # (default=-1 on the outer max since repo fix 36fb915: a graph without U vertices)
MBM2_LOOP = [
    ("M0-shape", "len(match) == nV and nU == len(bigraph)"),
    ("M1-matched-pairs-are-edges", VALID),
    ("M2-no-u-used-twice", INJ),
    ("M3-only-processed-u-are-matched", "all(implies(match[v] is not None, match[v] < k_u) for v in range(len(match)))"),
]
mbm2 = Contract(
    "max_bipartite_matching2", {"bigraph": "list[list[int]]"},
    requires=["all(0 <= v for uu in range(len(bigraph)) for v in bigraph[uu])"],
    ensures=[("result_pairs_are_edges", "all(implies(result[v] is not None, 0 <= result[v] and result[v] < len(bigraph) and v in bigraph[result[v]]) for v in range(len(result)))"),
             ("result_no_u_used_twice", "all(implies(result[v1] is not None and result[v1] == result[v2], v1 == v2) for v1 in range(len(result)) for v2 in range(len(result)))"),
             ("result_covers_every_v_index", "all(v < len(result) for uu in range(len(bigraph)) for v in bigraph[uu])")],
    invariants={"for#0": MBM2_LOOP},
    abstract={"Stmt@" + NV_STMT: {"havoc": {"nV": "int"},
                                  "assume": ["nV >= 0", "all(v < nV for uu in range(len(bigraph)) for v in bigraph[uu])"]}},
    result="list[opt[int]]",
    notes="the statement computing nV (nested max over a generator) is summarised by its defining property, keyed by its exact text")
MBM2_FINGERPRINT = {"for#0": "for u in range(nU)"}

# bipartite_vertex_cover for algo == "Hungarian": nothing abstracted - max_bipartite_matching2 is called by its (proved) contract
MBM2_CALLEE = Contract("max_bipartite_matching2", {"bigraph": "list[list[int]]"}, requires=mbm2.requires, ensures=mbm2.ensures,
                       result="list[opt[int]]")
hungarian = Contract(
    "bipartite_vertex_cover", {"bigraph": "list[list[int]]", "algo": "str"},
    requires=["algo == 'Hungarian'", "all(0 <= v for uu in range(len(bigraph)) for v in bigraph[uu])"], ensures=ENSURES,
    invariants={"for#0": MU, "while#0": OUTER, "for#2": INNER}, asserts="assume",
    notes="algo='Hungarian': the matching comes from max_bipartite_matching2 under its proved contract; no assumed MATCHING")
