"""Sidecar contract for renormalizer/lib/bipartite_matching/bipartite_matching.py (C20).

Call sites (grep): renormalizer/mps/symbolic_mpo.py:_decompose_graph calls
bipartite_vertex_cover(bigraph, algo) with bigraph = adjacency lists of the non-redundant term matrix.

The function is verified from the point where a matching `matchV` is available: the `if algo == ...`
statement (SciPy Hopcroft-Karp / recursive Hungarian `augment`) is *abstracted* by the assumed contract
MATCHING below (assumed, monitored at run time by Engine B on exhaustive small graphs).  Maximality is
NOT assumed for the partial-correctness obligations; it is assumed (through the ghost predicate `reach`,
DESIGN A.1) only for the obligations that the two `assert`s inside new_konig never fire.
"""
from vk.pyvc.engine import Contract

REL = "renormalizer/lib/bipartite_matching/bipartite_matching.py"

MATCHING = [
    "nU == len(bigraph)",
    "nV == len(matchV)",
    "all(0 <= v and v < nV for uu in range(nU) for v in bigraph[uu])",
    # matchV is a matching of bigraph: matched pairs are edges, no U vertex is used twice
    "all(implies(matchV[v] is not None, 0 <= matchV[v] and matchV[v] < nU and v in bigraph[matchV[v]]) for v in range(nV))",
    "all(implies(matchV[v1] is not None and matchV[v1] == matchV[v2], v1 == v2) for v1 in range(nV) for v2 in range(nV))",
]

# ghost predicate reach (alternating reachability from free U vertices) + no augmenting path
REACH = [
    "len(reach) == nU",
    "all(reach[uu] for uu in range(nU) if not any(matchV[v] == uu for v in range(nV)))",
    "all(implies(reach[uu] and matchV[v] is not None, reach[matchV[v]]) for uu in range(nU) for v in bigraph[uu])",
    "all(matchV[v] is not None for uu in range(nU) if reach[uu] for v in bigraph[uu])",
]

I0 = "len(visitU) == nU and len(visitV) == nV and all(0 <= x and x < nU for x in wait_u)"
I2 = "all(visitU[uu] or uu in wait_u for uu in range(nU) if not any(matchV[v] == uu for v in range(nV)))"
I3 = "all(matchV[v] is not None and (visitU[matchV[v]] or matchV[v] in wait_u) for v in range(nV) if visitV[v])"
I4 = "all(visitV[v] for v in range(nV) if matchV[v] is not None and (visitU[matchV[v]] or matchV[v] in wait_u))"
I5 = "all(not visitU[x] for x in wait_u)"
IR = "all(reach[uu] for uu in range(nU) if visitU[uu] or uu in wait_u)"

OUTER = [
    ("I0-ranges", I0),
    ("I1-processed-u-neighbours-visited",
     "all(visitV[v] for uu in range(nU) if visitU[uu] and uu not in wait_u for v in bigraph[uu])"),
    ("I2-free-u-visited-or-waiting", I2),
    ("I3-visited-v-matched-partner-seen", I3),
    ("I4-seen-partner-implies-v-visited", I4),
    ("I5-waiting-not-visited", I5),
]
INNER = [
    ("J0-ranges", I0 + " and 0 <= u and u < nU and visitU[u] and u not in wait_u"),
    ("J1-other-processed-u-neighbours-visited",
     "all(visitV[v] for uu in range(nU) if visitU[uu] and uu not in wait_u and uu != u for v in bigraph[uu])"),
    ("J1b-prefix-of-current-u", "all(visitV[bigraph[u][j]] for j in range(k_v))"),
    ("I2-free-u-visited-or-waiting", I2),
    ("I3-visited-v-matched-partner-seen", I3),
    ("I4-seen-partner-implies-v-visited", I4),
    ("I5-waiting-not-visited", I5),
]

MU = [("M0-matchU-length", "len(matchU) == nU")]

ENSURES = [
    ("table_lengths", "len(result[0]) == nU and len(result[1]) == nV"),
    ("is_cover", "all(result[0][uu] or result[1][v] for uu in range(nU) for v in bigraph[uu])"),
    ("selected_u_matched", "all(any(matchV[v] == uu for v in range(nV)) for uu in range(nU) if result[0][uu])"),
    ("selected_v_matched", "all(matchV[v] is not None for v in range(nV) if result[1][v])"),
    ("one_endpoint_per_matching_edge",
     "all(result[0][matchV[v]] != result[1][v] for v in range(nV) if matchV[v] is not None)"),
]

ABSTRACT = {"If#0": {"havoc": {"matchV": "list[opt[int]]", "nU": "int", "nV": "int"}, "assume": MATCHING}}

# the expected loop headers (fingerprint): a different structure makes the contract stale -> undecided, never violated
FINGERPRINT = {"for#0": "for v in range(nV)", "for#1": "for u in range(nU)",
               "while#0": "while len(wait_u) > 0", "for#2": "for v in bigraph[u]"}

# partial correctness: the two asserts are assumed on the normal path; no maximality needed
partial = Contract(
    "bipartite_vertex_cover", {"bigraph": "list[list[int]]", "algo": "str"},
    requires=[], ensures=ENSURES,
    invariants={"for#0": MU, "while#0": OUTER, "for#2": INNER},
    abstract=ABSTRACT, asserts="assume",
    notes="partial correctness: result is a cover with exactly one selected endpoint per matching edge "
          "=> |cover| = |matching| => (weak duality) minimum cover",
)

# total w.r.t. the asserts: they never fire when the matching admits no augmenting path
ABSTRACT_T = {"If#0": {"havoc": {"matchV": "list[opt[int]]", "nU": "int", "nV": "int"}, "assume": MATCHING + REACH}}
total = Contract(
    "bipartite_vertex_cover", {"bigraph": "list[list[int]]", "algo": "str"},
    requires=[], ensures=[],
    invariants={"for#0": MU, "while#0": OUTER + [("IR-seen-u-reachable", IR)], "for#2": INNER + [("IR-seen-u-reachable", IR)]},
    abstract=ABSTRACT_T, asserts="prove", ghost={"reach": "list[bool]"},
    notes="asserts never fire under ghost predicate reach closed under alternating paths and no augmenting path",
)
