"""./check replay <file>: re-run the check that produced a replay file (same property, tier and seed: the inputs of every engine are regenerated
deterministically from them) against the CURRENT tree and report whether the recorded obligation is violated again.

Exit 1 and a VIOLATION line when it is, exit 0 when the obligation now holds (e.g. after a repair), 3 on checker errors.  The evidence file of the property
is not rewritten by a replay (the run goes to .scratch/)."""
import importlib
import json
import os
import sys


def main(argv):
    if not argv:
        print("usage: ./check replay <replay file>")
        return 3
    path = argv[0]
    try:
        rec = json.load(open(path))
    except Exception as e:
        print(f"cannot read replay file {path}: {e}")
        return 3
    pid, oid = rec.get("property"), rec.get("obligation", "")
    tier, seed = rec.get("tier", "quick"), int(rec.get("seed", 0))
    base = oid.split("#")[0]
    print(f"replaying property={pid} obligation={base} tier={tier} seed={seed} on {os.environ.get('VERIF_REPO', '/repo')}")
    print("recorded:", (rec.get("what") or "")[:300])
    from vk import common
    # never touch the committed evidence / replays from a replay run
    common.FORCE_SCRATCH = True
    mod = importlib.import_module(f"props.{pid}")
    run = common.Run(pid, tier, seed, mod.LEVEL, getattr(mod, "TECHNIQUE", ""))
    run.replay_mode = True
    try:
        mod.check(run)
    except Exception as e:
        run.crash(f"props.{pid}.check (replay)", e)
    hits = [v for v in run.violations if v["obligation"].split("#")[0] == base]
    if run.crashes:
        print("checker error during replay")
        return 3
    if hits:
        print(f"reproduced: {len(hits)} violation(s) of {base}; first: {hits[0]['what'][:300]}")
        print(f"VIOLATION property={pid} replay={path}")
        return 1
    print(f"not reproduced: obligation {base} holds on the current tree ({len(run.violations)} other violation(s))")
    return 0
