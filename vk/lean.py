"""Mechanised lemmas (Lean 4 + Mathlib): a cited lemma of the trusted base becomes a checked one.

`lean <file>` is run on every invocation; every listed theorem must be accepted and its `#print axioms` line may only
name the three standard axioms.  Anything else (lean missing, time-out, `sorryAx`, an error) leaves the lemma UNDECIDED -
never a violation: the lemma does not depend on the repository, it connects contract clauses to the property statement.
`links` maps hypothesis names of the main theorem to the contract clause ids they stand for; both sides are checked to
exist so the link cannot silently rot.
"""
import os
import re
import shutil
import subprocess
import time

from vk.common import VERIF

STD_AXIOMS = {"propext", "Classical.choice", "choice", "Quot.sound"}   # `open Classical` prints the short name


def lean_lemmas(run, relfile, theorems, fn, links=None, clause_ids=(), timeout_s=600):
    path = os.path.join(VERIF, relfile)
    src = open(path).read()
    t0 = time.time()
    exe = shutil.which("lean")
    out, rc = "", None
    if exe is None:
        out = "lean not on PATH"
    else:
        try:
            p = subprocess.run([exe, path], capture_output=True, text=True, timeout=timeout_s, cwd=os.path.dirname(path))
            out, rc = p.stdout + p.stderr, p.returncode
        except subprocess.TimeoutExpired:
            out = f"lean timed out after {timeout_s}s"
    dt = time.time() - t0
    axioms = {}
    for m in re.finditer(r"'([\w.]+)' depends on axioms: \[([^\]]*)\]", out):
        axioms[m.group(1)] = {a.strip() for a in m.group(2).split(",") if a.strip()}
    for m in re.finditer(r"'([\w.]+)' does not depend on any axioms", out):
        axioms[m.group(1)] = set()
    for th in theorems:
        oid = f"lemma:{os.path.basename(relfile)}:{th}"
        declared = re.search(r"\btheorem\s+" + re.escape(th) + r"\b", src) is not None
        ok = rc == 0 and declared and th in axioms and axioms[th] <= STD_AXIOMS and "sorry" not in src
        if ok:
            run.oblig(oid, fn, "A(lean)", "discharged", backend="lean4+mathlib", time_s=dt / max(1, len(theorems)))
        else:
            why = out.strip()[-400:] if rc != 0 else f"declared={declared} axioms={sorted(axioms.get(th, ['<no #print axioms line>']))}"
            run.oblig(oid, fn, "A(lean)", "undecided", backend="lean4+mathlib", time_s=dt / max(1, len(theorems)), detail=why)
    for hyp, cid in (links or {}).items():
        oid = f"link:{os.path.basename(relfile)}:{hyp}->{cid}"
        ok = re.search(r"\(" + re.escape(hyp) + r"\s*:", src) is not None and cid in set(clause_ids)
        run.oblig(oid, fn, "A(lean)", "discharged" if ok else "undecided", backend="text-link",
                  detail=None if ok else "hypothesis or contract clause no longer exists")
    return rc == 0
