"""Driver: ./check <Cxx> [--tier quick|thorough] | ./check replay <file> | ./check all"""
import argparse
import importlib
import json
import os
import sys

from vk.common import Run, VERIF


def main(argv):
    if argv and argv[0] == "replay":
        from vk import replay
        return replay.main(argv[1:])
    ap = argparse.ArgumentParser()
    ap.add_argument("pid")
    ap.add_argument("--tier", default=os.environ.get("VERIF_TIER", "quick"), choices=["quick", "thorough"])
    ap.add_argument("--seed", type=int, default=int(os.environ.get("VERIF_SEED", "0") or 0))
    ap.add_argument("--only", default=None, help="comma separated obligation-id prefixes (debugging)")
    a = ap.parse_args(argv)
    try:
        mod = importlib.import_module(f"props.{a.pid}")
    except ModuleNotFoundError as e:
        print(f"no check registered for {a.pid}: {e}")
        return 3
    run = Run(a.pid, a.tier, a.seed, mod.LEVEL, getattr(mod, "TECHNIQUE", ""))
    run.only = a.only.split(",") if a.only else None
    try:
        mod.check(run)
    except Exception as e:  # a traceback in the checker is never a violation
        run.crash("props.%s.check" % a.pid, e)
    return run.finish()


if __name__ == "__main__":
    sys.exit(main(sys.argv[1:]))
