"""Exact sparse multivariate polynomials over Q(i) with formal conjugate variables (Engine S scalars).

A variable is an integer id; `var(k)` and its formal conjugate `var(k).conjugate()` are independent
indeterminates (ids 2k and 2k+1), so identities decided here hold for all complex values; a *real*
variable is its own conjugate.  Coefficients are exact: Fractions for real and imaginary part; floats
are lifted exactly (Fraction(float)).  Equality is equality of normal forms.
"""
from fractions import Fraction
import numpy as _np
import numbers

import numpy as np

_ZERO = Fraction(0)
_TICK = [0, None]     # [term products since the last check, callback installed by the harness]


def _lift(x):
    """python / numpy number -> (re, im) Fractions"""
    if isinstance(x, Fraction):
        return x, _ZERO
    if isinstance(x, (bool, np.bool_)):
        return Fraction(int(x)), _ZERO
    if isinstance(x, (int, np.integer)):
        return Fraction(int(x)), _ZERO
    if isinstance(x, (float, np.floating)):
        return Fraction(float(x)), _ZERO
    if isinstance(x, (complex, np.complexfloating)):
        return Fraction(float(x.real)), Fraction(float(x.imag))
    raise TypeError(f"cannot lift {type(x)} into an exact polynomial")


class Poly:
    __slots__ = ("t",)
    __array_priority__ = 1000
    real_vars = set()     # ids (even) of variables declared real

    def __init__(self, terms=None):
        self.t = terms if terms is not None else {}

    # ---- constructors
    @staticmethod
    def const(x):
        re, im = _lift(x)
        if re == 0 and im == 0:
            return Poly()
        return Poly({(): (re, im)})

    @staticmethod
    def var(k, real=False):
        if real:
            Poly.real_vars.add(2 * k)
        return Poly({(2 * k,): (Fraction(1), _ZERO)})

    @staticmethod
    def coerce(x):
        if isinstance(x, Poly):
            return x
        return Poly.const(x)

    # ---- arithmetic
    def __add__(self, o):
        if isinstance(o, _np.ndarray):      # numpy defers to us (__array_priority__): broadcast elementwise
            return _np.vectorize(lambda v: self + v, otypes=[object])(o)
        if not isinstance(o, Poly):
            try:
                o = Poly.const(o)
            except TypeError:
                return NotImplemented
        if not o.t:
            return self
        if not self.t:
            return o
        r = dict(self.t)
        for m, (a, b) in o.t.items():
            if m in r:
                c, d = r[m]
                c, d = c + a, d + b
                if c == 0 and d == 0:
                    del r[m]
                else:
                    r[m] = (c, d)
            else:
                r[m] = (a, b)
        return Poly(r)

    __radd__ = __add__

    def __neg__(self):
        return Poly({m: (-a, -b) for m, (a, b) in self.t.items()})

    def __sub__(self, o):
        if isinstance(o, _np.ndarray):
            return _np.vectorize(lambda v: self - v, otypes=[object])(o)
        if not isinstance(o, Poly):
            try:
                o = Poly.const(o)
            except TypeError:
                return NotImplemented
        return self + (-o)

    def __rsub__(self, o):
        if isinstance(o, _np.ndarray):
            return _np.vectorize(lambda v: v - self, otypes=[object])(o)
        return (-self) + o

    def __mul__(self, o):
        if isinstance(o, _np.ndarray):
            return _np.vectorize(lambda v: self * v, otypes=[object])(o)
        if not isinstance(o, Poly):
            try:
                re, im = _lift(o)
            except TypeError:
                return NotImplemented
            if re == 0 and im == 0:
                return Poly()
            if im == 0:
                if re == 1:
                    return self
                return Poly({m: (a * re, b * re) for m, (a, b) in self.t.items()})
            return Poly({m: (a * re - b * im, a * im + b * re) for m, (a, b) in self.t.items()})
        if not self.t or not o.t:
            return Poly()
        # cooperative wall-clock budget of pooled cases: every 4096 term products give the harness a chance to stop the case (vk.symx.harness.budget_check)
        _TICK[0] += len(self.t) * len(o.t)
        if _TICK[0] >= 4096:
            _TICK[0] = 0
            if _TICK[1] is not None:
                _TICK[1]()
        r = {}
        for m1, (a, b) in self.t.items():
            for m2, (c, d) in o.t.items():
                m = tuple(sorted(m1 + m2)) if m1 and m2 else (m1 or m2)
                if b == 0 and d == 0:
                    re, im = a * c, _ZERO
                else:
                    re, im = a * c - b * d, a * d + b * c
                if m in r:
                    x, y = r[m]
                    x, y = x + re, y + im
                    if x == 0 and y == 0:
                        del r[m]
                    else:
                        r[m] = (x, y)
                elif re != 0 or im != 0:
                    r[m] = (re, im)
        return Poly(r)

    __rmul__ = __mul__

    def __truediv__(self, o):
        if isinstance(o, Poly):
            if not o.is_const():
                raise TypeError("division by a non-constant polynomial")
            re, im = o.t.get((), (_ZERO, _ZERO))
        else:
            re, im = _lift(o)
        den = re * re + im * im
        if den == 0:
            raise ZeroDivisionError("exact division by zero")
        return self * Poly({(): (re / den, -im / den)})

    def __rtruediv__(self, o):
        return Poly.coerce(o) / self

    def __pow__(self, k):
        if not isinstance(k, (int, np.integer)) or k < 0:
            raise TypeError("only non-negative integer powers")
        r = Poly.const(1)
        for _ in range(int(k)):
            r = r * self
        return r

    # ---- complex structure
    def conjugate(self):
        r = {}
        rv = Poly.real_vars
        for m, (a, b) in self.t.items():
            m2 = tuple(sorted((v if v in rv else v ^ 1) for v in m))
            r[m2] = (a, -b)
        return Poly(r)

    conj = conjugate

    @property
    def real(self):
        return (self + self.conjugate()) * Fraction(1, 2)

    @property
    def imag(self):
        return (self - self.conjugate()) * Poly({(): (_ZERO, Fraction(-1, 2))})

    # ---- predicates
    def is_zero(self):
        return not self.t

    def is_const(self):
        return all(m == () for m in self.t)

    def __eq__(self, o):
        if not isinstance(o, Poly):
            try:
                o = Poly.const(o)
            except TypeError:
                return False
        return self.t == o.t

    def __ne__(self, o):
        return not self.__eq__(o)

    def __hash__(self):
        return hash(frozenset(self.t.items()))

    def __bool__(self):
        return bool(self.t)

    def __complex__(self):
        if not self.is_const():
            raise TypeError("symbolic value has no numeric value")
        a, b = self.t.get((), (_ZERO, _ZERO))
        return complex(float(a), float(b))

    def __float__(self):
        c = complex(self)
        if c.imag != 0:
            raise TypeError("complex constant")
        return c.real

    def __abs__(self):
        if self.is_const():
            return abs(complex(self))
        raise TypeError("abs() of a symbolic value is not polynomial")

    def degree(self):
        return max((len(m) for m in self.t), default=0)

    def nterms(self):
        return len(self.t)

    def evaluate(self, values):
        """values: dict var-id(2k) -> complex number; conjugate ids are derived"""
        tot = 0j
        for m, (a, b) in self.t.items():
            c = complex(float(a), float(b))
            for v in m:
                x = values[v & ~1]
                c *= (x.conjugate() if (v & 1) else x) if isinstance(x, complex) else x
            tot += c
        return tot

    def __repr__(self):
        if not self.t:
            return "0"
        parts = []
        for m, (a, b) in list(self.t.items())[:6]:
            c = f"{a}" if b == 0 else f"({a}+{b}i)"
            parts.append(c + "".join(f"*x{v // 2}{'~' if v & 1 else ''}" for v in m))
        return " + ".join(parts) + (" + ..." if len(self.t) > 6 else "")


numbers.Number.register(Poly)


class VarFactory:
    def __init__(self):
        self.n = 0

    def fresh(self, real=False):
        k = self.n
        self.n += 1
        return Poly.var(k, real=real)

    def array(self, shape, mask=None, real=False):
        """object array of fresh variables; structural zeros where mask is False"""
        a = np.empty(shape, dtype=object)
        it = np.nditer(np.zeros(shape), flags=["multi_index"])
        for _ in it:
            idx = it.multi_index
            if mask is None or mask[idx]:
                a[idx] = self.fresh(real=real)
            else:
                a[idx] = Poly()
        return a


def lift_array(x):
    """numeric array -> object array of exact constants"""
    x = np.asarray(x)
    out = np.empty(x.shape, dtype=object)
    for idx, v in np.ndenumerate(x):
        out[idx] = Poly.const(v)
    return out


def all_zero(arr):
    for v in np.asarray(arr, dtype=object).reshape(-1):
        if isinstance(v, Poly):
            if v.t:
                return False
        elif v != 0:
            return False
    return True


def first_nonzero(arr):
    a = np.asarray(arr, dtype=object)
    for idx, v in np.ndenumerate(a):
        if (isinstance(v, Poly) and v.t) or (not isinstance(v, Poly) and v != 0):
            return idx, v
    return None, None
