"""Execute the *real source* of a NumPy-level function with exact scalars.

The function is re-read from /repo with `ast`, numeric literals are read as the decimal written
(`0.5` -> Fraction("0.5"), `1/5` -> Fraction(1,5): true division of exact operands stays exact), and the
name `np` is bound to a proxy whose `array/zeros/...` build dtype=object arrays (so NumPy's own dot /
slicing / reshape run on exact entries).  Entries may be Fractions (ground runs) or z3 Real terms
(symbolic runs).  What is dropped: conversion of entries to IEEE doubles (`astype(np.float64)`).
"""
import ast
from fractions import Fraction

import numpy as np


class XArr(np.ndarray):
    def astype(self, dtype, *a, **k):  # dtype coercion dropped (exact entries are kept)
        return self.copy()


def _wrap(x):
    return np.asarray(x, dtype=object).view(XArr)


class ExactNP:
    """proxy bound to the name `np` inside the extracted function"""

    float64 = "float64"
    complex128 = "complex128"

    def __init__(self, zero=Fraction(0)):
        self._zero = zero

    def array(self, x, dtype=None):
        return _wrap(x)

    asarray = array

    def zeros(self, shape, dtype=None):
        a = np.empty(shape, dtype=object)
        a.fill(self._zero)
        return a.view(XArr)

    def __getattr__(self, name):
        return getattr(np, name)


class _Lit(ast.NodeTransformer):
    def __init__(self, src):
        self.src = src

    def visit_Constant(self, node):
        if isinstance(node.value, float):
            txt = ast.get_source_segment(self.src, node) or repr(node.value)
            return ast.copy_location(ast.Call(func=ast.Name(id="__F", ctx=ast.Load()),
                                              args=[ast.Constant(value=txt)], keywords=[]), node)
        return node

    def visit_BinOp(self, node):
        self.generic_visit(node)
        if isinstance(node.op, ast.Div):
            return ast.copy_location(ast.Call(func=ast.Name(id="__div", ctx=ast.Load()),
                                              args=[node.left, node.right], keywords=[]), node)
        return node


def _div(a, b):
    if isinstance(a, (int, Fraction)) and isinstance(b, (int, Fraction)) and not isinstance(a, bool):
        return Fraction(a) / Fraction(b)
    return a / b


def extract(repo_root, relpath, qualname, extra_globals=None, zero=Fraction(0)):
    """return a python callable compiled from the current source of `qualname` with exact semantics"""
    import os
    src = open(os.path.join(repo_root, relpath)).read()
    tree = ast.parse(src)
    node = tree
    for part in qualname.split("."):
        node = next(ch for ch in ast.iter_child_nodes(node)
                    if isinstance(ch, (ast.FunctionDef, ast.ClassDef)) and ch.name == part)
    fn = _Lit(src).visit(node)
    fn.decorator_list = []
    mod = ast.Module(body=[fn], type_ignores=[])
    ast.fix_missing_locations(mod)
    g = {"np": ExactNP(zero), "__F": Fraction, "__div": _div}
    if extra_globals:
        g.update(extra_globals)
    exec(compile(mod, f"<exact:{relpath}:{qualname}>", "exec"), g)
    return g[node.name], ast.unparse(node)
