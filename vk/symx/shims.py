"""Shims that let the real chain code run on dtype=object arrays with exact symbolic entries (DESIGN §3).

Installed from the harness by monkeypatching, removed afterwards; the repository files are untouched.
What they drop: conversion of tensor entries to IEEE doubles (np.asarray(..., dtype=float64|complex128)) and the
builtin complex()/float() conversion of scalar results.  Nothing else.
"""
import builtins
import contextlib

import numpy as np

from vk.symx.poly import Poly

SHIMS = [
    "renormalizer.mps.matrix.Matrix.__init__/astype/to_complex: dtype coercion skipped for dtype=object arrays",
    "matrix.zeros/ones (as imported into mp/mps/mpo/lib) return dtype=object arrays of exact 0/1",
    "the names np and xp (= numpy without a GPU) inside renormalizer.mps.mps / mp are a proxy: isclose/allclose/iscomplex are exact on symbolic values, everything else is numpy",
    "module-level names complex/float in renormalizer.mps.mp, mps, mpo, lib shadowed by identity-on-symbolic versions",
]


def _is_sym(a):
    return isinstance(a, np.ndarray) and a.dtype == object


@contextlib.contextmanager
def symbolic_mode():
    from renormalizer.mps import matrix as M
    from renormalizer.mps.backend import backend
    import renormalizer.mps.mp as mp_mod
    import renormalizer.mps.mps as mps_mod
    import renormalizer.mps.mpo as mpo_mod
    import renormalizer.mps.lib as lib_mod
    import renormalizer.mps.mpdm as mpdm_mod
    orig_init, orig_astype, orig_tc = M.Matrix.__init__, M.Matrix.astype, M.Matrix.to_complex

    def init(self, array, dtype=None):
        a = M.asnumpy(array)
        if _is_sym(a):
            self.array = a
            self.original_shape = a.shape
            self.sigmaqn = None
            backend.running = True
            return
        return orig_init(self, array, dtype)

    def astype(self, dtype):
        if _is_sym(self.array):
            return self
        return orig_astype(self, dtype)

    def to_complex(self):
        if _is_sym(self.array):
            return self.array.copy()
        return orig_tc(self)

    def sym_complex(x=0, *a):
        if isinstance(x, Poly):
            return x
        if isinstance(x, np.ndarray) and x.dtype == object and x.shape == ():
            return x.item()
        return builtins.complex(x, *a)

    def sym_float(x=0):
        if isinstance(x, Poly):
            return x
        return builtins.float(x)

    def sym_zeros(shape, dtype=None):
        a = np.empty(shape, dtype=object)
        a.fill(Poly())
        return M.Matrix(a)

    def sym_ones(shape, dtype=None):
        a = np.empty(shape, dtype=object)
        a.fill(Poly.const(1))
        return M.Matrix(a)

    class NPProxy:
        """forwards to numpy except for tolerance comparisons, which become exact on symbolic values"""

        def __getattr__(self, name):
            return getattr(np, name)

        @staticmethod
        def _sym(x):
            return isinstance(x, Poly) or (isinstance(x, np.ndarray) and x.dtype == object)

        def isclose(self, a, b, *args, **kw):
            if self._sym(a) or self._sym(b):
                if isinstance(a, np.ndarray) or isinstance(b, np.ndarray):
                    return np.vectorize(lambda x, y: bool(Poly.coerce(x) == Poly.coerce(y)), otypes=[bool])(a, b)
                return bool(Poly.coerce(a) == Poly.coerce(b))
            return np.isclose(a, b, *args, **kw)

        def allclose(self, a, b, *args, **kw):
            if self._sym(a) or self._sym(b):
                return bool(np.all(self.isclose(a, b)))
            return np.allclose(a, b, *args, **kw)

        def iscomplex(self, x):
            if self._sym(x):
                if isinstance(x, Poly):
                    return bool(x.imag)
                return np.vectorize(lambda v: bool(Poly.coerce(v).imag), otypes=[bool])(x)
            return np.iscomplex(x)

    proxy = NPProxy()
    saved_np = [(m, m.__dict__.get("np")) for m in (mps_mod, mp_mod)]
    for m, _ in saved_np:
        m.np = proxy
    saved_xp = [(m, m.__dict__["xp"]) for m in (mps_mod, mp_mod) if m.__dict__.get("xp") is np]      # xp is numpy without a GPU: same exact comparisons
    for m, _ in saved_xp:
        m.xp = proxy

    mods = [mp_mod, mps_mod, mpo_mod, lib_mod, mpdm_mod]
    saved = [(m, m.__dict__.get("complex", None), m.__dict__.get("float", None)) for m in mods]
    saved_fn = [(m, name, m.__dict__[name]) for m in mods for name in ("zeros", "ones") if name in m.__dict__ and m.__dict__[name] in (M.zeros, M.ones)]
    for m, name, _ in saved_fn:
        setattr(m, name, sym_zeros if name == "zeros" else sym_ones)
    M.Matrix.__init__, M.Matrix.astype, M.Matrix.to_complex = init, astype, to_complex
    for m in mods:
        m.complex = sym_complex
        m.float = sym_float
    try:
        yield
    finally:
        M.Matrix.__init__, M.Matrix.astype, M.Matrix.to_complex = orig_init, orig_astype, orig_tc
        for m, val in saved_np:
            m.np = val
        for m, val in saved_xp:
            m.xp = val
        for m, name, val in saved_fn:
            setattr(m, name, val)
        for m, c, f in saved:
            for name, val in (("complex", c), ("float", f)):
                if val is None:
                    m.__dict__.pop(name, None)
                else:
                    setattr(m, name, val)


def symbolic_state(mps, vf, real=False, keep_zero_pattern=True):
    """copy of a numeric chain object whose non-zero entries are replaced by fresh variables
    (structural zeros kept: QNV holds by construction for the symbolic object iff it held for the template)"""
    out = mps.metacopy()
    with symbolic_mode():
        for i in range(len(mps)):
            a = np.asarray(mps[i].array)
            mask = (np.abs(a) > 0) if keep_zero_pattern else np.ones(a.shape, dtype=bool)
            out._mp[i] = None
            out[i] = vf.array(a.shape, mask=mask, real=real)
    return out


def numeric_to_symbolic_const(mp):
    """same object with exact constant entries (Fractions of the floats)"""
    from vk.symx.poly import lift_array
    out = mp.metacopy()
    with symbolic_mode():
        for i in range(len(mp)):
            out[i] = lift_array(np.asarray(mp[i].array))
    return out


TREE_SHIMS = [
    "renormalizer.tn.node.TreeNodeTensor.tensor (setter): dtype coercion skipped for dtype=object arrays",
    "the names np / float / complex inside renormalizer.tn.tree: isclose/allclose/iscomplex exact on symbolic values, float()/complex() identity on symbolic values",
]


@contextlib.contextmanager
def symbolic_mode_tree():
    """shims for running renormalizer.tn.tree on symbolic tensors (on top of nothing else: the chain shims are independent)"""
    import renormalizer.tn.node as node_mod
    import renormalizer.tn.tree as tree_mod
    cls = node_mod.TreeNodeTensor
    orig_prop = cls.__dict__["tensor"]

    def setter(self, tensor):
        t = tensor
        if isinstance(t, np.ndarray) and t.dtype == object:
            self._tensor = t
            return
        orig_prop.fset(self, tensor)
    new_prop = property(orig_prop.fget, setter)
    cls.tensor = new_prop
    cls.array = new_prop

    class NPProxy:
        def __getattr__(self, n):
            return getattr(np, n)

        @staticmethod
        def _sym(x):
            return isinstance(x, Poly) or (isinstance(x, np.ndarray) and x.dtype == object)

        def isclose(self, a, b, *args, **kw):
            if self._sym(a) or self._sym(b):
                return bool(Poly.coerce(a) == Poly.coerce(b))
            return np.isclose(a, b, *args, **kw)

        def allclose(self, a, b, *args, **kw):
            if self._sym(a) or self._sym(b):
                return bool(np.all(np.vectorize(lambda x, y: bool(Poly.coerce(x) == Poly.coerce(y)), otypes=[bool])(a, b)))
            return np.allclose(a, b, *args, **kw)

        def iscomplex(self, x):
            if self._sym(x):
                return bool(Poly.coerce(x).imag) if isinstance(x, Poly) else False
            return np.iscomplex(x)

        def array(self, x, dtype=None, **kw):
            # np.array(t, dtype=complex) inside the tree module: `complex` is shadowed there; symbolic arrays keep dtype=object (copy)
            if dtype is sym_complex:
                dtype = builtins.complex
            elif dtype is sym_float:
                dtype = builtins.float
            if isinstance(x, np.ndarray) and x.dtype == object:
                return x.copy()
            return np.array(x, dtype=dtype, **kw)

    def sym_float(x=0):
        return x if isinstance(x, Poly) else builtins.float(x)

    def sym_complex(x=0, *a):
        return x if isinstance(x, Poly) else builtins.complex(x, *a)
    saved = {k: tree_mod.__dict__.get(k) for k in ("np", "float", "complex")}
    tree_mod.np, tree_mod.float, tree_mod.complex = NPProxy(), sym_float, sym_complex
    try:
        yield
    finally:
        cls.tensor = orig_prop
        cls.array = orig_prop
        for k, v in saved.items():
            if v is None:
                tree_mod.__dict__.pop(k, None)
            else:
                setattr(tree_mod, k, v)


def symbolic_ttns(ttns, vf):
    """copy of a numeric TTNS whose non-zero entries are replaced by fresh variables (zero pattern kept)"""
    out = ttns.copy()
    with symbolic_mode_tree():
        for node in out.node_list:
            a = np.asarray(node.tensor)
            node.tensor = vf.array(a.shape, mask=(np.abs(a) > 0))
    return out


def const_ttno(ttno):
    """same TTNO with exact constant entries"""
    import copy as _copy
    from vk.symx.poly import lift_array
    out = _copy.copy(ttno)
    from renormalizer.tn.node import TreeNodeTensor, copy_connection
    nodes = []
    with symbolic_mode_tree():
        for n in ttno.node_list:
            nodes.append(TreeNodeTensor(lift_array(np.asarray(n.tensor)), n.qn))
    copy_connection(ttno.node_list, nodes)
    from renormalizer.tn import TTNO
    with symbolic_mode_tree():
        new = TTNO(ttno.basis, ttno.terms, root=nodes[0])
    return new


KERNEL_STUBS = [
    "renormalizer.mps.svd_qn.optimized_svd, scipy.linalg.qr / rq as seen from svd_qn: replaced by *trivial exact factorisations* of the block "
    "(QR: Q = block, R = 1 for tall blocks, Q = 1, R = block for wide ones; SVD: U = block diag(1/s), S = s, V^T = 1 resp. U = 1, S = s, V^T = diag(1/s) block "
    "with fixed distinct powers of two s): block = factor product holds exactly, orthonormality of the factors does not - the obligations decided in this "
    "mode (represented object unchanged, labels valid, centre/direction bookkeeping) do not depend on it",
    "np.linalg.norm as seen from renormalizer.mps.mp returns the constant 2 on symbolic arrays (the operator branch of _update_ms rescales the two factors by a "
    "norm and its inverse: the product must be invariant for any positive scalar)",
    "scipy.linalg.eigh as seen from svd_qn (density-matrix path of the state-averaged two-site update): returns fixed positive eigenvalues and the identity as "
    "eigenbasis - a complete orthonormal basis, NOT a diagonalisation of the block; the obligations decided with it (every root is reproduced by the kept basis when "
    "nothing is truncated; labels) use only completeness and orthonormality. eigh_qn's own reconstruction contract is proved separately with exact factors (C18_kernel.prove_eigh)",
    "MatrixProduct.check_left_canonical / check_right_canonical return True (compress asserts canonical input; with trivial factorisations the tensors are not isometries)",
]


@contextlib.contextmanager
def kernel_stub_mode():
    """symbolic_mode + factorisation kernels replaced by trivial exact factorisations (modular verification of the bookkeeping around them)"""
    import renormalizer.mps.svd_qn as sq
    import renormalizer.mps.mp as mp_mod
    from fractions import Fraction

    def svals(k):
        return np.array([2.0 ** (2 - i) for i in range(k)])      # 4, 2, 1, 1/2, ...: distinct, exactly representable

    def eye(n):
        return np.array([[Poly.const(1 if i == j else 0) for j in range(n)] for i in range(n)], dtype=object).reshape(n, n)

    extra = {"vf": None}

    def fresh_block(r, c):
        """columns / rows that multiply zero singular values in the full decomposition: arbitrary, hence fresh indeterminates"""
        if extra["vf"] is None:
            from vk.symx.poly import VarFactory
            extra["vf"] = VarFactory()
            extra["vf"].n = 10 ** 6          # far away from the variables of the objects under test
        return np.array([[extra["vf"].fresh() for _ in range(c)] for _ in range(r)], dtype=object).reshape(r, c)

    def stub_svd(a, full_matrices, opt_full_matrices):
        m, n = a.shape
        k = min(m, n)
        s = svals(k)
        inv = np.array([Poly.const(Fraction(1) / Fraction(float(x))) for x in s], dtype=object)
        a = np.asarray(a, dtype=object)
        if m >= n:
            u, vt = a * inv[None, :], eye(n)
            if full_matrices and m > n:
                u = np.concatenate([u, fresh_block(m, m - n)], axis=1)
        else:
            u, vt = eye(m), inv[:, None] * a
            if full_matrices:
                vt = np.concatenate([vt, fresh_block(n - m, n)], axis=0)
        return u, s, vt

    class LinalgStub:
        LinAlgError = __import__("scipy").linalg.LinAlgError

        @staticmethod
        def qr(a, mode="full", **kw):
            a = np.asarray(a, dtype=object)
            m, n = a.shape
            if mode == "economic":
                return (a, eye(n)) if m >= n else (eye(m), a)
            if mode != "full":
                raise NotImplementedError("kernel stub: QR mode " + mode)
            # full: Q m x m, R m x n
            if m <= n:
                return eye(m), a
            zero = np.array([[Poly.const(0)] * n for _ in range(m - n)], dtype=object).reshape(m - n, n)
            return np.concatenate([a, fresh_block(m, m - n)], axis=1), np.concatenate([eye(n), zero], axis=0)

        @staticmethod
        def rq(a, mode="full", **kw):
            a = np.asarray(a, dtype=object)
            m, n = a.shape
            if mode == "economic":
                return (eye(m), a) if m <= n else (a, eye(n))
            if mode != "full":
                raise NotImplementedError("kernel stub: RQ mode " + mode)
            # full: R m x n, Q n x n
            if m >= n:
                return a, eye(n)
            zero = np.array([[Poly.const(0)] * (n - m) for _ in range(m)], dtype=object).reshape(m, n - m)
            return np.concatenate([zero, eye(m)], axis=1), np.concatenate([fresh_block(n - m, n), a], axis=0)

        @staticmethod
        def eigh(a, *args, **kw):
            # a complete orthonormal eigenbasis with fixed positive eigenvalues (ascending, as LAPACK returns them); see KERNEL_STUBS
            a = np.asarray(a, dtype=object)
            k = a.shape[0]
            return np.array([4.0 ** (j - k + 2) for j in range(k)]), eye(k)

        def __getattr__(self, name):
            import scipy.linalg
            return getattr(scipy.linalg, name)

    class ScipyStub:
        linalg = LinalgStub()

    with symbolic_mode():
        saved = (sq.optimized_svd, sq.scipy, mp_mod.MatrixProduct.check_left_canonical, mp_mod.MatrixProduct.check_right_canonical)
        proxy = mp_mod.np           # NPProxy installed by symbolic_mode
        orig_linalg = np.linalg

        class LinalgNP:
            def __getattr__(self, name):
                return getattr(orig_linalg, name)

            @staticmethod
            def norm(x, *a, **k):
                if isinstance(x, np.ndarray) and x.dtype == object:
                    return 2.0
                return orig_linalg.norm(x, *a, **k)
        type(proxy).linalg = LinalgNP()
        sq.optimized_svd, sq.scipy = stub_svd, ScipyStub()
        mp_mod.MatrixProduct.check_left_canonical = lambda self, *a, **k: True
        mp_mod.MatrixProduct.check_right_canonical = lambda self, *a, **k: True
        try:
            yield
        finally:
            sq.optimized_svd, sq.scipy, mp_mod.MatrixProduct.check_left_canonical, mp_mod.MatrixProduct.check_right_canonical = saved
            try:
                del type(proxy).linalg
            except AttributeError:
                pass


@contextlib.contextmanager
def kernel_stub_mode_tree():
    """kernel_stub_mode + tree shims; TTNS.check_canonical (asserted by compress) returns True for the same reason as in the chain case"""
    import renormalizer.tn.tree as tree_mod
    with kernel_stub_mode():
        with symbolic_mode_tree():
            saved = tree_mod.TTNS.check_canonical
            tree_mod.TTNS.check_canonical = lambda self, *a, **k: True
            try:
                yield
            finally:
                tree_mod.TTNS.check_canonical = saved
