"""Engine S harness: decide polynomial identities produced by running the real code on symbolic tensors."""
import time

import numpy as np

from vk.symx.poly import Poly, all_zero, first_nonzero


class TimeUp(BaseException):
    """wall-clock budget of a pooled case exhausted.  BaseException: it passes through the `except Exception` clauses that turn exceptions of the code under test
    into totality violations - running out of time is not a property of the code.  Raised only synchronously (between obligations, at kernel calls, every few thousand term products of the
    polynomial arithmetic), never from a signal handler (an exception raised asynchronously inside object construction surfaces as SystemError)"""


_DEADLINE = [None]


def budget_check():
    import time as _t
    if _DEADLINE[0] is not None and _t.time() > _DEADLINE[0]:
        raise TimeUp()


from vk.symx import poly as _poly
_poly._TICK[1] = budget_check        # long polynomial products (numpy object dot) call back every few thousand term products


def run_with_budget(seconds, fn, case, led, skipped_key):
    """fn(case, led) under a cooperative wall-clock budget; a case that runs out of time is recorded in led.extra['skipped'] - its obligations are simply not
    generated (never a violation, never counted as discharged)"""
    import time as _t
    _DEADLINE[0] = _t.time() + seconds
    try:
        fn(case, led)
    except TimeUp:
        led.calls = [c for c in led.calls if c[0] != "crash"]
        # an obligation that was being reported when the time ran out (its replay did not finish) belongs to the skipped case: neither discharged nor violated
        while led.calls and led.calls[-1][0] == "oblig" and "violated" in led.calls[-1][1]:
            led.calls.pop()
        led.extra.setdefault("skipped", []).append(skipped_key)
    finally:
        _DEADLINE[0] = None


def decide(run, oid, fn, lhs, rhs, case, numeric_replay=None, fields=None):
    """lhs, rhs: Poly / object arrays / numbers.  Records one S obligation; on refutation reports a violation whose
    replay re-runs the same call natively on random numeric values (always possible: a non-zero polynomial is non-zero
    at a random point with probability 1)."""
    budget_check()
    t0 = time.time()
    try:
        if isinstance(lhs, Poly) or isinstance(rhs, Poly) or np.isscalar(lhs):
            diff = np.array([Poly.coerce(lhs) - Poly.coerce(rhs)], dtype=object)
        else:
            la, ra = np.asarray(lhs, dtype=object), np.asarray(rhs, dtype=object)
            if la.shape != ra.shape:
                diff = None
            else:
                diff = la - ra
        ok = diff is not None and all_zero(diff)
    except Exception as e:
        run.oblig(oid, fn, "S(symx)", "undecided", "exact polynomial normal form", time.time() - t0, detail=f"{type(e).__name__}: {e}")
        return None
    dt = time.time() - t0
    if ok:
        run.oblig(oid, fn, "S(symx)", "discharged", "exact polynomial normal form", dt)
        return True
    run.oblig(oid, fn, "S(symx)", "violated", "exact polynomial normal form", dt)
    witness = None
    if diff is not None:
        idx, w = first_nonzero(diff)
        witness = {"entry": [int(i) for i in idx] if idx is not None else None, "difference": repr(w)[:300]}
    else:
        witness = {"shape_lhs": list(np.asarray(lhs, dtype=object).shape), "shape_rhs": list(np.asarray(rhs, dtype=object).shape)}
    native = None
    fired = False
    if numeric_replay is not None:
        try:
            fired, native = numeric_replay()
        except Exception as e:
            native = f"numeric replay raised {e!r}"
    f = {"obligation": oid}
    f.update(fields or {})
    run.violation(oid, fn, f"symbolic identity refuted (holds for no generic values): {witness}", fields=f,
                  replay={"case": case, "witness": witness, "native_numeric_replay": native}, no_input=not fired, engine="S(symx)")
    return False


def decide_true(run, oid, fn, cond, what, case, fields=None, numeric_replay=None):
    if cond:
        run.oblig(oid, fn, "S(symx)", "discharged", "exact polynomial normal form")
        return True
    run.oblig(oid, fn, "S(symx)", "violated", "exact polynomial normal form")
    f = {"obligation": oid}
    f.update(fields or {})
    native, fired = None, False
    if numeric_replay is not None:
        try:
            fired, native = numeric_replay()
        except Exception as e:
            native = f"numeric replay raised {e!r}"
    run.violation(oid, fn, what, fields=f, replay={"case": case, "native_numeric_replay": native}, no_input=not fired, engine="S(symx)")
    return False


def native_pair(fun, how):
    """numeric replay of an identity: fun() -> (lhs, rhs) on float tensors; fires when they differ (or when the real code raises)"""
    def f():
        try:
            lhs, rhs = fun()
        except Exception as e:
            return True, {"raised_on_float_tensors": repr(e), "how": how}
        lhs, rhs = np.asarray(lhs, dtype=complex), np.asarray(rhs, dtype=complex)
        err = float(np.abs(lhs - rhs).max()) if lhs.shape == rhs.shape else float("inf")
        return err > 1e-9 * max(1.0, float(np.abs(rhs).max()) if rhs.size else 1.0), {"numeric_error_on_random_complex_values": err, "how": how}
    return f


def native_cond(fun, how):
    """numeric replay of a boolean clause: fun() -> (holds, detail) on float tensors; fires when it does not hold (or the real code raises)"""
    def f():
        try:
            ok, detail = fun()
        except Exception as e:
            return True, {"raised_on_float_tensors": repr(e), "how": how}
        return (not ok), {"observed_on_float_tensors": detail, "how": how}
    return f


def coef_max(arr):
    """largest coefficient modulus over the entries of an object array of polynomials"""
    m = 0.0
    for x in np.asarray(arr, dtype=object).reshape(-1):
        for re, im in Poly.coerce(x).t.values():
            m = max(m, abs(complex(re, im)))
    return m


def decide_close(run, oid, fn, lhs, rhs, case, rel=1e-13, numeric_replay=None, fields=None):
    """identity of polynomials up to rounding of *constants of the code* (scheme coefficients such as 1/6 written as floats): every coefficient of
    lhs - rhs is at most rel x the largest coefficient of rhs.  Still a statement about all values of the indeterminates."""
    t0 = time.time()
    try:
        la, ra = np.asarray(lhs, dtype=object), np.asarray(rhs, dtype=object)
        if la.shape != ra.shape:
            ok, worst, scale = False, float("inf"), coef_max(ra)
        else:
            scale = max(coef_max(ra), 1e-300)
            worst = coef_max(la - ra)
            ok = worst <= rel * scale
    except Exception as e:
        run.oblig(oid, fn, "S(symx)", "undecided", "polynomial normal form, coefficientwise", time.time() - t0, detail=f"{type(e).__name__}: {e}")
        return None
    dt = time.time() - t0
    if ok:
        run.oblig(oid, fn, "S(symx)", "discharged", "polynomial normal form, coefficientwise", dt)
        return True
    run.oblig(oid, fn, "S(symx)", "violated", "polynomial normal form, coefficientwise", dt)
    native, fired = None, False
    if numeric_replay is not None:
        try:
            fired, native = numeric_replay()
        except Exception as e:
            native = f"numeric replay raised {e!r}"
    f = {"obligation": oid}
    f.update(fields or {})
    run.violation(oid, fn, f"symbolic identity refuted: a coefficient of the difference polynomial is {worst:.3e} (scale {scale:.3e})", fields=f,
                  replay={"case": case, "largest_coefficient_of_difference": worst, "scale": scale, "native_numeric_replay": native}, no_input=not fired, engine="S(symx)")
    return False


def guarded(run, prove, *args, **kw):
    """run an Engine-S prove function; an exception that escapes it while the innermost frames are inside the repository under test means the real code raised on an
    input the harness prepared (state templates, gauge moves, operator construction): that is a violated totality clause with a concrete input (the traceback),
    not a checker error.  Exceptions raised by the harness itself stay checker errors."""
    import traceback
    from vk import common
    try:
        return prove(run, *args, **kw)
    except Exception as e:
        tb = traceback.extract_tb(e.__traceback__)
        inner = [f for f in tb if f.filename.startswith(common.REPO + "/")]
        last_verif = [f for f in tb if "/verif/" in f.filename]
        if inner and tb[-1].filename.startswith(common.REPO + "/"):
            where = inner[-1]
            name = getattr(prove, "__module__", "prove").split(".")[-1]
            run.oblig(f"post:{name}:prepared_inputs_total", where.name, "S(symx)", "violated", "exact polynomial normal form")
            run.violation(f"post:{name}:prepared_inputs_total", where.name,
                          f"the code under test raised {type(e).__name__}: {e} at {where.filename[len(common.REPO) + 1:]}:{where.lineno} ({where.name}) while the harness "
                          f"prepared / executed a case ({last_verif[-1].name if last_verif else '?'} line {last_verif[-1].lineno if last_verif else '?'})",
                          fields={"exception": type(e).__name__, "raised_in": where.name},
                          replay={"traceback": traceback.format_exception(type(e), e, e.__traceback__)[-12:]}, engine="S(symx)")
            return None
        raise


class SLedger:
    """picklable stand-in for a Run inside pool workers: records the ledger calls made by decide / decide_true / guarded and replays them into the real Run"""

    def __init__(self, tier, seed):
        self.tier, self.seed, self.calls, self.extra = tier, seed, [], {}

    def oblig(self, *a, **k):
        self.calls.append(("oblig", a, k))

    def violation(self, *a, **k):
        self.calls.append(("violation", a, k))
        return True

    def crash(self, where, exc=None):
        self.calls.append(("crash", (f"{where}: {exc!r}",), {}))

    def bounded_eval(self, *a, **k):
        self.calls.append(("bounded_eval", a, k))

    def replay_into(self, run):
        for name, a, k in self.calls:
            getattr(run, name)(*a, **k)


def pool_cases(run, worker, cases, procs=None):
    """worker(case, ledger) in a process pool; ledgers are merged into `run` in case order (deterministic)"""
    import traceback
    from vk.rtc.pool import pmap
    from vk.common import _jsonable as json_safe

    def _one(case):
        led = SLedger(run.tier, run.seed)
        try:
            worker(case, led)
        except Exception as e:
            led.calls.append(("crash", (f"worker {getattr(worker, '__name__', worker)} case {case!r}: {e!r} {traceback.format_exc()[-1200:]}",), {}))
        for name, a, k in led.calls:      # make the payloads picklable / jsonable early
            if name == "violation" and "replay" in k:
                k["replay"] = json_safe(k["replay"])
        return led
    global _POOL_ONE
    _POOL_ONE = _one
    leds = pmap(_pool_entry, list(cases), procs=procs)
    for led in leds:
        led.replay_into(run)
    return leds


_POOL_ONE = None


def _pool_entry(case):
    return _POOL_ONE(case)


def native_pass(run, oid, fn, replay, key, case):
    """the same clauses evaluated once in floating point with the REAL kernels (labelled bounded): besides replaying the identities it decides what the
    stubbed kernels cannot - that the frames of every local problem are orthonormal, so that the local standard eigen / evolution problem is the projected one"""
    fired, detail = replay()
    run.bounded_eval(oid, fn, key=key, nontrivial=True)
    if fired:
        run.violation(oid, fn, f"with the real kernels on float tensors: {str(detail.get('failed_clauses', detail))[:400]}", fields={"obligation": oid},
                      replay={"case": case, "native": detail})
