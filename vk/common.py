"""Shared run context: obligations ledger, verdict policy, known findings, replay files, evidence.

Exit codes (DESIGN §7): 0 held / 1 unlisted violation (VIOLATION line printed) / 2 undecided and no
stand-in / 3 checker crash, vacuity or engine discrepancy.  `unknown`, time-outs and tracebacks are
never mapped to 1.
"""
import json
import os
import subprocess
import sys
import time
import traceback

VERIF = os.path.dirname(os.path.dirname(os.path.abspath(__file__)))
REPO = os.environ.get("VERIF_REPO", "/repo")
FORCE_SCRATCH = False      # set by ./check replay: a replay never rewrites committed evidence

GLOBAL_ASSUMPTIONS = [
    "Engine A/S: Python int is mathematical, float arithmetic is treated as exact real/rational arithmetic "
    "(literals read as the decimal written); machine rounding is not modelled",
    "NumPy/SciPy/opt_einsum/LAPACK are trusted (external, unverified)",
    "CPython semantics of the supported subset as encoded by vk/pyvc (cross-checked against CPython on "
    "concrete inputs, not proved)",
]


def repo_state():
    try:
        head = subprocess.check_output(["git", "-C", REPO, "rev-parse", "HEAD"], stderr=subprocess.DEVNULL).decode().strip()
        stat = subprocess.check_output(["git", "-C", REPO, "diff", "--stat"], stderr=subprocess.DEVNULL).decode().strip()
    except Exception:
        head, stat = "unknown", ""
    return {"head": head, "diff_stat": stat}


def load_known_findings():
    path = os.path.join(VERIF, "known_findings.jsonl")
    out = []
    if os.path.exists(path):
        for line in open(path):
            line = line.strip()
            if line and not line.startswith("#"):
                out.append(json.loads(line))
    return out


def _jsonable(x):
    try:
        import numpy as np
    except Exception:  # pragma: no cover
        np = None
    if isinstance(x, dict):
        return {str(k): _jsonable(v) for k, v in x.items()}
    if isinstance(x, (list, tuple, set, frozenset)):
        return [_jsonable(v) for v in x]
    if np is not None:
        if isinstance(x, np.ndarray):
            if x.dtype.kind == "c":
                return {"re": x.real.tolist(), "im": x.imag.tolist()}
            if x.dtype.kind == "O":
                return [_jsonable(v) for v in x.tolist()]
            return x.tolist()
        if isinstance(x, np.generic):
            return _jsonable(x.item())
    if isinstance(x, complex):
        return {"re": x.real, "im": x.imag}
    if isinstance(x, (int, float, str, bool)) or x is None:
        return x
    return repr(x)


def _prefix(oid):
    cut = min([i for i in (oid.find("@"), oid.find("[")) if i >= 0] or [len(oid)])
    return oid[:cut]


def _summarise_fuc(fuc):
    """functions under contract -> engine -> obligation ids; long lists (Engine S decides thousands of per-shape instances of one clause) are grouped by clause"""
    out = {}
    for fn, engines in fuc.items():
        out[fn] = {}
        for eng, ids in engines.items():
            if len(ids) <= 30:
                out[fn][eng] = ids
            else:
                groups = {}
                for i in ids:
                    groups[_prefix(i)] = groups.get(_prefix(i), 0) + 1
                out[fn][eng] = {"count": len(ids), "clauses": groups, "examples": ids[:3]}
    return out


def _group_obligs(obligs):
    groups = {}
    for o in obligs:
        k = (_prefix(o["id"]), o["function"], o["engine"], o["backend"])
        g = groups.setdefault(k, {"clause": k[0], "function": k[1], "engine": k[2], "backend": k[3], "count": 0, "discharged": 0, "seconds": 0.0})
        g["count"] += 1
        g["discharged"] += o["status"] == "discharged"
        g["seconds"] = round(g["seconds"] + o.get("time_s", 0.0), 4)
    return list(groups.values())


class Run:
    def __init__(self, pid, tier, seed, level, technique=""):
        self.pid = pid
        self.tier = tier
        self.seed = seed
        self.level = level
        self.technique = technique
        self.t0 = time.time()
        self.obligs = []          # proof obligations (engines A / S)
        self.bounded = {}         # bounded contract id -> dict(evaluations, nontrivial keys, failures)
        self.violations = []
        self.known_hit = []
        self.undecided = []
        self.crashes = []
        self.samples = []
        self.assumptions = list(GLOBAL_ASSUMPTIONS)
        self.trusted = []
        self.fuc = {}             # function under contract -> {engine: [obligation ids]}
        self.extra = {}
        self.backends = {}
        self.findings = load_known_findings()
        self.explanation = ""
        self.rule = ""
        self._replay_n = 0
        self.exhaustive = None
        self.vacuity_min_obligs = 0

    # ------------------------------------------------------------------ ledger
    def fuc_add(self, fn, engine, oid):
        self.fuc.setdefault(fn, {}).setdefault(engine, [])
        if oid not in self.fuc[fn][engine]:
            self.fuc[fn][engine].append(oid)

    def oblig(self, oid, fn, engine, status, backend="", time_s=0.0, detail=None):
        """status: discharged | violated | undecided"""
        self.obligs.append({"id": oid, "function": fn, "engine": engine, "status": status,
                            "backend": backend, "time_s": round(time_s, 4)})
        self.fuc_add(fn, engine, oid)
        if backend:
            b = self.backends.setdefault(backend, {"count": 0, "seconds": 0.0})
            b["count"] += 1
            b["seconds"] = round(b["seconds"] + time_s, 4)
        if status == "undecided":
            self.undecided.append({"id": oid, "function": fn, "detail": _jsonable(detail)})
            print(f"UNDECIDED obligation={oid} function={fn} ({detail})")

    def bounded_eval(self, cid, fn, n=1, key=None, nontrivial=True):
        b = self.bounded.setdefault(cid, {"function": fn, "evaluations": 0, "keys": set(), "failures": 0})
        b["evaluations"] += n
        if key is not None and nontrivial:
            b["keys"].add(key)
        self.fuc_add(fn, "B(bounded)", cid)

    def sample(self, s, cap=12):
        if len(self.samples) < cap:
            self.samples.append(_jsonable(s))

    # --------------------------------------------------------------- verdicts
    def _match_known(self, oid, fields):
        for f in self.findings:
            if f.get("status") != "finding" or f.get("property") != self.pid:
                continue
            m = f.get("match", {})
            if m.get("obligation") != oid:
                continue
            ok = True
            for k, v in m.items():
                if k == "obligation":
                    continue
                if _jsonable(fields.get(k)) != v:
                    ok = False
                    break
            if ok:
                return f
        return None

    def violation(self, oid, fn, what, fields=None, replay=None, no_input=False, engine="B(bounded)"):
        """Record a violated obligation.  `fields` identify the failing input/call site (matched against
        known_findings.jsonl); `replay` is the payload written to the replay file."""
        fields = fields or {}
        kf = self._match_known(oid, fields)
        if kf is not None:
            key = (oid, json.dumps(kf.get("match", {}), sort_keys=True))
            if key not in [k for k, _ in self.known_hit]:
                self.known_hit.append((key, kf))
                print(f"KNOWN-FINDING: property={self.pid} {kf.get('key', what)}")
            return False
        self._per_oid = getattr(self, "_per_oid", {})
        self._per_oid[oid] = self._per_oid.get(oid, 0) + 1
        if self._per_oid[oid] > 3:   # same obligation, further inputs: counted, not printed again
            self.violations.append({"obligation": oid, "function": fn, "what": what, "replay": None})
            return True
        self._replay_n += 1
        d = os.path.join(VERIF, "replays" if (REPO == "/repo" and not FORCE_SCRATCH) else os.path.join(".scratch", "replays"), self.pid)
        os.makedirs(d, exist_ok=True)
        safe = "".join(c if c.isalnum() or c in "._-" else "_" for c in oid)[:80]
        path = os.path.join(d, f"{safe}.{self._replay_n}.json")
        payload = {"property": self.pid, "obligation": oid, "function": fn, "engine": engine, "what": what,
                   "fields": _jsonable(fields), "replay": _jsonable(replay), "repo": repo_state(),
                   "no_failing_input_found": bool(no_input), "tier": self.tier, "seed": self.seed}
        with open(path, "w") as fh:
            json.dump(payload, fh, indent=1)
        rel = os.path.relpath(path, VERIF)
        line = f"VIOLATION property={self.pid} replay={rel}"
        if no_input:
            line += " no-failing-input-found"
        print(f"  violated obligation {oid} in {fn}: {what}")
        print(line)
        sys.stdout.flush()
        self.violations.append({"obligation": oid, "function": fn, "what": what, "replay": rel})
        return True

    def crash(self, where, exc=None):
        tb = traceback.format_exc() if exc is not None else ""
        self.crashes.append({"where": where, "error": repr(exc), "traceback": tb[-2000:]})
        print(f"CHECKER-ERROR at {where}: {exc!r}")
        if tb:
            print(tb)

    # --------------------------------------------------------------- evidence
    def finish(self):
        wall = time.time() - self.t0
        n_obl = len(self.obligs)
        n_dis = sum(1 for o in self.obligs if o["status"] == "discharged")
        evals = sum(b["evaluations"] for b in self.bounded.values())
        distinct = sum(len(b["keys"]) for b in self.bounded.values())
        level = self.level
        vac = []
        if self.level == "proof" and n_obl == 0:
            vac.append("zero proof obligations generated")
        stale = [u for u in self.undecided if "stale contract" in str(u.get("detail")) or "outside subset" in str(u.get("detail"))]
        if n_obl < self.vacuity_min_obligs and not stale:
            # (a contract that no longer matches the code - renamed locals, changed loop structure - generates few obligations by construction: that is
            # reported as UNDECIDED, not as a vacuous run)
            vac.append(f"only {n_obl} obligations generated, expected at least {self.vacuity_min_obligs}")
        if self.level in ("exploration", "fault_enumeration") and (evals < 1 or distinct < 2):
            vac.append(f"bounded part vacuous: evaluations={evals} distinct_nontrivial={distinct}")
        if self.level == "proof" and (n_dis < n_obl):
            level = "other"   # lowered for this run (DESIGN §7)
        cov = {
            "obligations": n_obl, "discharged": n_dis,
            "checker_cmd": f"./check {self.pid} --tier {self.tier}",
            "trusted_base": self.trusted,
            "evaluations": evals, "distinct_nontrivial": distinct,
            "rule": self.rule, "samples": self.samples or [o for o in self.obligs[:5]],
            "explanation": self.explanation,
            "functions_under_contract": _summarise_fuc(self.fuc),
            "proved_obligations_by_group": _group_obligs([o for o in self.obligs if o["engine"].startswith(("A", "S"))]),
            "backends": self.backends,
            "undecided": self.undecided,
            "bounded_only": {k: {"function": v["function"], "evaluations": v["evaluations"],
                                 "distinct_nontrivial": len(v["keys"])} for k, v in self.bounded.items()},
            "proved_obligations": [o for o in self.obligs if o["engine"].startswith(("A", "S"))][:400],
            "known_findings_hit": [kf.get("key") for _, kf in self.known_hit],
            "violations": self.violations,
            "checker_errors": self.crashes,
            "vacuity": vac,
            "technique": self.technique,
        }
        if self.exhaustive is not None:
            cov["exhaustive"] = bool(self.exhaustive)
        cov.update(self.extra)
        ev = {"property_id": self.pid, "tier": self.tier, "seed": int(self.seed), "level": level,
              "coverage": _jsonable(cov), "assumptions": self.assumptions, "wall_s": round(wall, 2),
              "violations": len(self.violations)}
        # runs against a scratch copy of the repository (VERIF_REPO set by tools/try_seed.sh) never touch the committed evidence
        evdir = os.path.join(VERIF, "evidence") if (REPO == "/repo" and not FORCE_SCRATCH) else os.path.join(VERIF, ".scratch", "evidence")
        os.makedirs(evdir, exist_ok=True)
        with open(os.path.join(evdir, f"{self.pid}.json"), "w") as fh:
            json.dump(ev, fh, indent=1)
        print(f"[{self.pid}] tier={self.tier} seed={self.seed} level={level} proof-obligations={n_dis}/{n_obl} "
              f"bounded-evaluations={evals} distinct={distinct} violations={len(self.violations)} "
              f"known={len(self.known_hit)} undecided={len(self.undecided)} wall={wall:.1f}s")
        if self.violations:
            return 1
        if self.crashes or vac:
            for v in vac:
                print("VACUITY:", v)
            return 3
        if self.undecided and evals == 0:
            # undecided obligations and no bounded stand-in evaluated anything: the property is not decided on this tree (never a violation)
            print(f"UNDECIDED property={self.pid}: {len(self.undecided)} obligation(s) could not be decided and no bounded stand-in covers them")
            return 2
        return 0
