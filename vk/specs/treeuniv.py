"""Tree universes for the bounded engines: random trees with Hermitian, number-conserving Hamiltonians and dense references."""
import numpy as np

from vk.specs import tree as T
from vk.specs import universe as U
from vk.specs import chain as S


def hermitian_terms(model, rng, scale=1.0):
    """real Hermitian sum-of-products Hamiltonian over the model's basis list (hoppings come with their adjoint)"""
    from renormalizer.model import Op
    qs = model.qn_size
    terms = []

    def one(sym, dof, f=1.0):
        b = model.dof_to_basis[dof]
        parts = sym.split(" ")
        if len(parts) > 1:
            qn = []
            for p_ in parts:
                c1 = U.op_charge(b, Op(p_, dof))
                qn.append(list(c1) if qs > 1 else c1[0])
            return Op(sym, [dof] * len(parts), f, qn=qn)
        ch = U.op_charge(b, Op(sym, dof))
        return Op(sym, dof, f, qn=ch[0] if qs == 1 else [list(ch)])

    spins = [b.dofs[0] for b in model.basis if type(b).__name__ == "BasisHalfSpin"]
    es = [b.dofs[0] for b in model.basis if type(b).__name__ == "BasisSimpleElectron"]
    vs = [b.dofs[0] for b in model.basis if type(b).__name__ == "BasisSHO"]
    neutral_spin = bool(spins) and np.all(np.asarray(model.dof_to_basis[spins[0]].sigmaqn) == 0)
    for d in spins:
        terms.append(one("sigma_z", d, scale * float(rng.uniform(-0.5, 0.5))))
        if neutral_spin:
            terms.append(one("sigma_x", d, scale * float(rng.uniform(-0.6, 0.6))))
    for i in range(len(spins) - 1):
        J = scale * float(rng.uniform(0.3, 1.0))
        terms.append(one("sigma_+", spins[i]) * one("sigma_-", spins[i + 1]) * J)
        terms.append(one("sigma_-", spins[i]) * one("sigma_+", spins[i + 1]) * J)
        terms.append(one("sigma_z", spins[i]) * one("sigma_z", spins[i + 1]) * (scale * float(rng.uniform(-0.4, 0.4))))
    if len(spins) >= 3:
        J = scale * float(rng.uniform(0.2, 0.5))
        terms.append(one("sigma_+", spins[0]) * one("sigma_-", spins[-1]) * J)
        terms.append(one("sigma_-", spins[0]) * one("sigma_+", spins[-1]) * J)
    for d in es:
        terms.append(one(r"a^\dagger a", d, scale * float(rng.uniform(-0.3, 0.3))))
    for i in range(len(es) - 1):
        J = scale * float(rng.uniform(0.3, 0.8))
        terms.append(one(r"a^\dagger", es[i]) * one("a", es[i + 1]) * J)
        terms.append(one("a", es[i]) * one(r"a^\dagger", es[i + 1]) * J)
    for i, d in enumerate(vs):
        b = model.dof_to_basis[d]
        terms.append(one(r"b^\dagger b", d, scale * b.omega))
        if es:
            terms.append(one(r"a^\dagger a", es[i % len(es)]) * one("x", d) * (scale * float(rng.uniform(0.2, 0.6))))
    return terms


def setup(seed, n_nodes, flavour, max_dim=400, tries=20):
    """returns dict(bt, order, model, terms, H (TTNO), Hd, sectors, shape) or None"""
    from renormalizer.model import Model
    from renormalizer.tn import TTNO
    rng = np.random.default_rng([seed, n_nodes, 1111, sum(map(ord, flavour))])
    for _ in range(tries):
        bt, created, shape = T.random_tree(rng, n_nodes, flavour)
        dims = [b.nbas for b in created]
        if int(np.prod(dims)) <= max_dim:
            break
    else:
        return None
    model = Model(list(created), [])
    terms = hermitian_terms(model, rng)
    if not terms:
        return None
    H = TTNO(bt, terms)
    Hd = U.dense_terms(model, terms).real
    charges = S.config_charges(model)
    sectors = sorted({tuple(c.tolist()) for c in charges})
    sectors = [s[0] if len(s) == 1 else s for s in sectors]
    return dict(bt=bt, order=created, model=model, terms=terms, H=H, Hd=Hd, sectors=sectors, shape=shape, rng=rng)


def random_ttns(bt, q, m, rng, complex_=False):
    from renormalizer.tn import TTNS
    st = np.random.get_state()
    np.random.seed(int(rng.integers(2 ** 31 - 1)))
    try:
        s = TTNS.random(bt, q, m)
    except (FloatingPointError, ValueError, AssertionError, IndexError):
        return None
    finally:
        np.random.set_state(st)
    v = T.dense_ttns(s)
    if not np.all(np.isfinite(v)) or np.abs(v).max() == 0:
        return None
    if complex_:
        s = s.to_complex()
        for node in s.node_list:
            a = np.asarray(node.tensor)
            ph = rng.normal(size=a.shape) + 1j * rng.normal(size=a.shape)
            node.tensor = a * (ph / np.abs(ph)) * (np.abs(a) > 0)
    return s


def describe_tree(bt):
    return {"nodes": [[repr(b.dofs) for b in n.basis_sets] for n in bt.node_list],
            "parents": [bt.node_idx[n.parent] if n.parent is not None else None for n in bt.node_list]}
