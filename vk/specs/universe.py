"""Enumerators for the bounded engines (DESIGN Appendix C): chain models, operator terms, states."""
import itertools

import numpy as np

from vk.specs import chain as S

SYMBOLS = {
    "BasisHalfSpin": ["sigma_x", "sigma_z", "sigma_+", "sigma_-", "isigma_y"],
    "BasisSimpleElectron": [r"a^\dagger", "a", r"a^\dagger a"],
    "BasisSHO": ["x", r"b^\dagger b", "x^2", "p^2", r"b^\dagger", "b"],
    "BasisMultiElectronVac": [r"a^\dagger", "a", r"a^\dagger a"],
    "BasisMultiElectron": [r"a^\dagger a"],
}


def op_charge(basis, op):
    """charge carried by a one-site operator: sigmaqn[row] - sigmaqn[col] on its non-zero entries (None if mixed)"""
    m = np.asarray(basis.op_mat(op))
    s = np.asarray(basis.sigmaqn)
    ch = None
    for r, c in zip(*np.nonzero(np.abs(m) > 0)):
        d = tuple((s[r] - s[c]).tolist())
        if ch is None:
            ch = d
        elif ch != d:
            return None
    if ch is None:
        ch = tuple([0] * s.shape[1])
    return ch


def elem_ops(model):
    """[(Op with correct qn, charge tuple, site)] for every supported primary symbol of every site"""
    from renormalizer.model import Op
    out = []
    for isite, b in enumerate(model.basis):
        syms = SYMBOLS.get(type(b).__name__, [])
        for dof in b.dofs:
            for sym in syms:
                parts = sym.split(" ")
                try:
                    if len(parts) == 1:
                        ch = op_charge(b, Op(sym, dof))
                        if ch is None:
                            continue
                        qn = [list(ch)] if model.qn_size > 1 else ch[0]
                        op = Op(sym, dof, 1.0, qn=qn if model.qn_size == 1 else [list(ch)])
                    else:
                        qs = []
                        for p in parts:
                            c1 = op_charge(b, Op(p, dof))
                            if c1 is None:
                                raise ValueError
                            qs.append(list(c1) if model.qn_size > 1 else c1[0])
                        op = Op(sym, [dof] * len(parts), 1.0, qn=qs)
                        ch = tuple(np.sum(np.array([np.atleast_1d(q) for q in qs]), axis=0).tolist())
                    np.asarray(b.op_mat(op))
                except Exception:
                    continue
                out.append((op, tuple(ch), isite))
    return out


def random_terms(model, rng, nterms, charge=None, max_sites=3, complex_factors=False):
    """random product terms whose total charge is `charge` (default zero vector)"""
    from renormalizer.model import Op
    qs = model.qn_size
    target = tuple([0] * qs) if charge is None else tuple(np.atleast_1d(charge).tolist())
    eo = elem_ops(model)
    by_site = {}
    for op, ch, s in eo:
        by_site.setdefault(s, []).append((op, ch))
    sites = sorted(by_site)
    terms = []
    tries = 0
    pool = [1.0, -0.5, 2.0, 0.3, 1e-3, 40.0]
    while len(terms) < nterms and tries < nterms * 60:
        tries += 1
        k = int(rng.integers(1, min(max_sites, len(sites)) + 1))
        chosen = sorted(rng.choice(sites, size=k, replace=False).tolist())
        ops = [by_site[s][int(rng.integers(len(by_site[s])))] for s in chosen]
        tot = tuple(np.sum(np.array([c for _, c in ops]), axis=0).tolist())
        if tot != target:
            continue
        t = ops[0][0]
        for o, _ in ops[1:]:
            t = t * o
        f = pool[int(rng.integers(len(pool)))]
        if complex_factors and rng.random() < 0.4:
            f = f * (0.6 + 0.8j)
        terms.append(t * f)
    return terms


def dense_terms(model, terms, offset=0.0):
    """independent dense operator: sum_k c_k (x)_sites product of local matrices, minus offset"""
    dims = [b.nbas for b in model.basis]
    D = int(np.prod(dims))
    H = np.zeros((D, D), dtype=complex)
    from renormalizer.model import Op
    for t in terms:
        mats = [np.eye(d, dtype=complex) for d in dims]
        # symbols are grouped per site keeping their written order; the local matrix of a site is, by definition of the
        # property, basis.op_mat of that grouped one-site operator (that op_mat of a product symbol is the ordered matrix
        # product of its factors is a contract of C16, not of the construction)
        for isite, b in enumerate(model.basis):
            syms = [(s_, d_) for s_, d_ in zip(t.split_symbol, t.dofs) if model.dof_to_siteidx[d_] == isite]
            if syms:
                mats[isite] = np.asarray(b.op_mat(Op(" ".join(s_ for s_, _ in syms), [d_ for _, d_ in syms])), dtype=complex)
        m = np.ones((1, 1), dtype=complex)
        for a in mats:
            m = np.kron(m, a)
        H += t.factor * m
    H -= offset * np.eye(D)
    return H


def chain_cases(tier, seed):
    """(model name, nsites) pairs; quick = small exhaustive grid, thorough = larger"""
    names = ["spin", "spinqn", "spin2qn", "holstein", "multi"]
    ns = [1, 2, 3, 4] if tier == "quick" else [1, 2, 3, 4, 5]
    for name in names:
        for n in ns:
            if name == "multi" and n < 2:
                continue
            yield name, n


def make_state(model, q, m, rng, complex_=False):
    try:
        st = S.random_mps(model, q, m, rng, complex_=complex_)
    except (FloatingPointError, ValueError, AssertionError, IndexError):
        return None   # sector not representable with this bond limit (precondition of Mps.random)
    v = S.dense(st)
    if not np.all(np.isfinite(v)) or np.abs(v).max() == 0:
        return None
    return st
