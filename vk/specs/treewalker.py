"""History walker over live tree states (frame clauses of C13 for TTNS / TTNO methods).

A pool of live TTNS on one random tree; after every public operation the dense vector x prefactor, the total charge and QNV_T of every
object the operation is not documented to modify must be unchanged; with probability 1/2 the fresh result is then modified in place
(scale(inplace=True) / normalize / canonicalise / compress) and the others are observed again ("derive b from a, mutate one, observe the other").
"""
import numpy as np

from vk.specs import tree as T
from vk.specs import treeuniv as TU

TREE_METHODS = ["tdvp_vmf", "prop_and_compress_tdrk4", "tdvp_ps", "tdvp_ps2"]


class LiveT:
    def __init__(self, obj, tag, order):
        self.obj, self.tag, self.order = obj, tag, order
        self.dense = T.dense_ttns(obj, order)
        self.sector = np.asarray(obj.qntot).copy()

    def current(self):
        return T.dense_ttns(self.obj, self.order)

    def meta_ok(self):
        return bool(np.all(np.asarray(self.obj.qntot).reshape(-1) == self.sector.reshape(-1))) and not T.qnv_tree_violations(self.obj)


def walk(seed, n_nodes, flavour, length, led, tier="quick"):
    from renormalizer.utils import EvolveConfig, EvolveMethod, CompressConfig, CompressCriteria
    su = TU.setup(seed, n_nodes, flavour, max_dim=200)
    if su is None:
        return
    bt, order, H, Hd, rng = su["bt"], su["order"], su["H"], su["Hd"], su["rng"]
    Hframe = T.dense_ttno(H, order).copy()
    pool = []
    sel = list(su["sectors"])
    rng.shuffle(sel)
    for q in sel[:2]:
        for m in (3, 2):
            st = TU.random_ttns(bt, q, m, rng, complex_=rng.random() < 0.4)
            if st is not None:
                pool.append(LiveT(st, f"random q={q}", order))
    if not pool:
        return
    hist = []
    desc = TU.describe_tree(bt)

    def observe(opname, fn, clause, skip=()):
        key = (repr(su["shape"]), flavour, seed, len(hist), opname)
        rep = {"tree": desc, "flavour": flavour, "seed": seed, "history": list(hist), "failing_op": opname,
               "how": "vk.specs.treewalker.walk(seed, n_nodes, flavour, ...) replays this history deterministically"}
        for L in pool:
            if L in skip:
                continue
            cur = L.current()
            ok = cur.shape == L.dense.shape and np.abs(cur - L.dense).max() <= 1e-12 * max(1.0, np.abs(L.dense).max())
            led.check(ok, f"frame:{fn}:{clause}", fn, f"after {opname}: tree state '{L.tag}' changed by "
                      f"{np.abs(cur - L.dense).max() if cur.shape == L.dense.shape else 'shape'}", key + (clause, L.tag), {"op": opname}, rep)
            led.check(L.meta_ok(), f"frame:{fn}:{clause}_metadata", fn, f"after {opname}: total charge / labels of '{L.tag}' changed", key + (clause, "meta", L.tag),
                      {"op": opname}, rep)
        hd = T.dense_ttno(H, order)
        led.check(np.abs(hd - Hframe).max() <= 1e-12 * max(1.0, np.abs(Hframe).max()), f"frame:{fn}:operator_unchanged", fn, f"after {opname}: the TTNO changed",
                  key + ("H",), {"op": opname}, rep)

    def audit(opname, fn, new=None, modified=()):
        observe(opname, fn, "live_objects_unchanged", skip=tuple(modified) + ((new,) if new is not None else ()))
        if new is not None and rng.random() < 0.6 and np.abs(new.dense).max() > 1e-8:
            how = ["scale_inplace", "normalize", "canonicalise", "compress", "to_complex_inplace+scale"][int(rng.integers(5))]
            hist.append(f"  then in place on the result: {how}")
            try:
                if how == "scale_inplace":
                    new.obj.scale(1.5, inplace=True)
                elif how == "normalize":
                    new.obj.normalize("ttns_and_coeff")
                elif how == "canonicalise":
                    new.obj.canonicalise()
                    new.obj.scale(-2.0, inplace=True)
                elif how == "compress":
                    new.obj.compress_config = CompressConfig(CompressCriteria.fixed, max_bonddim=1)
                    new.obj.canonicalise()
                    new.obj.compress()
                    new.obj.scale(0.5, inplace=True)
                else:
                    new.obj.to_complex(inplace=True)
                    new.obj.scale(1j, inplace=True)
            except Exception as e:      # totality of these calls belongs to C11/C05; the frame is audited on the exception path too
                hist.append(f"    (raised {type(e).__name__})")
            try:
                new.dense = new.current()
                new.sector = np.asarray(new.obj.qntot).copy()
            except Exception:
                pool.remove(new)
                new = None
            observe(opname + " + " + how, fn, "mutating_result_leaves_inputs", skip=((new,) if new is not None else ()))
            # and the other direction: mutate the input, observe the result
        elif new is not None and rng.random() < 0.5 and modified == () and np.abs(new.dense).max() > 1e-8:
            src = [L for L in pool if L is not new and np.abs(L.dense).max() > 1e-8]
            if src:
                A = src[int(rng.integers(len(src)))]
                hist.append(f"  then in place on the live object '{A.tag}': scale(0.7, inplace=True)")
                A.obj.scale(0.7, inplace=True)
                A.dense = A.current()
                observe(opname + " + mutate other", fn, "mutating_input_leaves_results", skip=())

    ops = ["copy", "to_complex", "scale", "scale_c", "add", "apply", "contract", "expectation", "rdm", "evolve", "evolve", "compress_copy", "canonicalise", "metacopy", "sv"]
    for step in range(length):
        op = ops[int(rng.integers(len(ops)))]
        A = pool[int(rng.integers(len(pool)))]
        try:
            if op == "copy":
                hist.append(f"copy({A.tag})")
                new = LiveT(A.obj.copy(), f"#{step}:copy", order)
                pool.append(new)
                audit(op, "TTNS.copy", new)
            elif op == "to_complex":
                hist.append(f"to_complex({A.tag})")
                new = LiveT(A.obj.to_complex(), f"#{step}:to_complex", order)
                pool.append(new)
                audit(op, "TTNS.to_complex", new)
            elif op in ("scale", "scale_c"):
                val = [0.5, -2.0][int(rng.integers(2))] if op == "scale" else 0.3 + 0.4j
                hist.append(f"scale({A.tag}, {val})")
                new = LiveT(A.obj.scale(val), f"#{step}:scale", order)
                pool.append(new)
                audit(op, "TTNS.scale", new)
            elif op == "add":
                same = [L for L in pool if np.all(L.sector == A.sector)]
                B = same[int(rng.integers(len(same)))]
                hist.append(f"add({A.tag}, {B.tag})")
                new = LiveT(A.obj.add(B.obj), f"#{step}:add", order)
                pool.append(new)
                audit(op, "TTNS.add", new)
            elif op in ("apply", "contract"):
                hist.append(f"H.{op}({A.tag})")
                r = H.apply(A.obj) if op == "apply" else H.contract(A.obj)
                new = LiveT(r, f"#{step}:H{op}", order)
                pool.append(new)
                audit(op, f"TTNO.{op}", new)
            elif op == "expectation":
                hist.append(f"<{A.tag}|H|{A.tag}>")
                A.obj.expectation(H)
                audit(op, "TTNS.expectation")
            elif op == "rdm":
                hist.append(f"rdms({A.tag})")
                A.obj.calc_1site_rdm()
                A.obj.calc_1dof_rdm()
                audit(op, "TTNS.calc_1site_rdm")
            elif op == "sv":
                hist.append(f"calc_bond_singular_values/entropy({A.tag})")
                if np.abs(A.dense).max() > 1e-8:
                    A.obj.calc_bond_entropy()
                audit(op, "TTNS.calc_bond_singular_values")
            elif op == "metacopy":
                hist.append(f"metacopy({A.tag})")
                A.obj.metacopy()
                audit(op, "TTNS.metacopy")
            elif op == "canonicalise":
                hist.append(f"canonicalise in place({A.tag})")
                if np.abs(A.dense).max() > 1e-8:
                    A.obj.canonicalise()
                    keep = A.dense
                    A.dense = A.current()
                    audit(op, "TTNS.canonicalise", modified=(A,))
            elif op == "compress_copy":
                M = int(rng.integers(1, 4))
                hist.append(f"compress(copy of {A.tag}, M={M})")
                if np.abs(A.dense).max() > 1e-8:
                    c = A.obj.copy()
                    c.compress_config = CompressConfig(CompressCriteria.fixed, max_bonddim=M)
                    c.canonicalise()
                    c.compress()
                    new = LiveT(c, f"#{step}:compressM{M}", order)
                    pool.append(new)
                    audit(op, "TTNS.compress", new)
            elif op == "evolve":
                meth = TREE_METHODS[int(rng.integers(len(TREE_METHODS)))]
                imag = rng.random() < 0.4
                tau = 0.05 * (-1j if imag else 1.0)
                if np.linalg.norm(A.dense) < 1e-6:
                    continue
                hist.append(f"evolve(canonical copy of {A.tag}, {meth}, tau={tau})")
                src = A.obj.copy()
                src.canonicalise()
                src.evolve_config = EvolveConfig(getattr(EvolveMethod, meth))
                src.compress_config = CompressConfig(CompressCriteria.fixed, max_bonddim=32)
                A2 = LiveT(src, f"#{step}:canonical-copy", order)
                pool.append(A2)
                from vk.specs.walker import time_limit
                with time_limit(30):
                    r = src.evolve(H, tau)
                new = LiveT(r, f"#{step}:evolve[{meth}]", order)
                pool.append(new)
                audit(op, f"TTNS.evolve[{meth}]", new)
        except Exception as e:
            led.ok(f"skipped:{op}:raised", f"treewalker:{op}", (repr(su["shape"]), flavour, seed, len(hist), "raised", type(e).__name__), nontrivial=False)
            hist.append(f"  (raised {type(e).__name__}: {str(e)[:60]})")
            pool[:] = [L for L in pool if _alive(L)]
            observe(op + " [exception path]", f"treewalker:{op}", "live_objects_unchanged")
        if len(pool) > 12:
            del pool[2: len(pool) - 8]


def _alive(L):
    try:
        L.current()
        return True
    except Exception:
        return False
