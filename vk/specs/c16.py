"""Specification side of C16: independent oracles for the local basis matrices and the packaged model builders.

Nothing in this file calls `op_mat`, `Mpo` or any model builder of the repository.  The oracles are
closed-form definitions (ladder operators in a *larger* basis, Pauli matrices, hard-core Fock space,
analytic particle-in-a-box functions integrated with scipy.integrate.quad) and a dense Kronecker
assembly of sum-of-product Hamiltonians.  The only thing read from the repository is the *source text*
of the `op_mat` methods (via `ast`), to enumerate the symbol literals a class claims to support.
"""
import ast
import inspect
import re
import textwrap
import warnings

import numpy as np
import scipy.integrate
from numpy.polynomial import Polynomial

EPS = np.finfo(float).eps
DAG = r"b^\dagger"


# =========================================================================== symbol extraction (ast)
def extract_symbols(cls, method="op_mat"):
    """symbol literals / symbol families / aliases the method dispatches on, read from its source.

    returns dict(literals=set[str], families=set[(kind, literal)], aliases=set[(old, new)], patterns=set[str])
    `patterns` are comparisons that mention the symbol variable but are not understood by this reader:
    they are reported as uncovered by `coverage_gaps`.
    """
    src = textwrap.dedent(inspect.getsource(getattr(cls, method)))
    tree = ast.parse(src)
    # follow delegation to helper methods of the same class (e.g. op_mat wrapping _op_mat): their dispatch is part of op_mat's
    seen_m, todo = {method}, [tree]
    extra = []
    while todo:
        t = todo.pop()
        for n in ast.walk(t):
            if isinstance(n, ast.Call) and isinstance(n.func, ast.Attribute) and isinstance(n.func.value, ast.Name) and n.func.value.id == "self":
                m = n.func.attr
                f = cls.__dict__.get(m)
                if m not in seen_m and inspect.isfunction(f):
                    seen_m.add(m)
                    try:
                        sub = ast.parse(textwrap.dedent(inspect.getsource(f)))
                    except (OSError, TypeError):
                        continue
                    extra.append(sub)
                    todo.append(sub)
    if extra:
        tree = ast.Module(body=list(tree.body) + [b for e in extra for b in e.body], type_ignores=[])

    def is_sym(n):
        return isinstance(n, ast.Name) and n.id.startswith("op_symbol")

    def direct(n):
        return is_sym(n) or (isinstance(n, ast.Subscript) and is_sym(n.value))

    def mentions(n):
        return any(is_sym(m) for m in ast.walk(n))

    def strs(n):
        if isinstance(n, ast.Constant) and isinstance(n.value, str):
            return [n.value]
        if isinstance(n, (ast.List, ast.Tuple, ast.Set)):
            return [s for e in n.elts for s in strs(e)]
        return []

    def has_str(n):
        return any(isinstance(m, ast.Constant) and isinstance(m.value, str) for m in ast.walk(n))

    lits, fams, aliases, patterns = set(), set(), set(), set()
    for node in ast.walk(tree):
        if isinstance(node, ast.Compare):
            parts = [node.left] + list(node.comparators)
            if direct(node.left):
                for c in node.comparators:
                    got = strs(c)
                    lits.update(got)
                    if not got and has_str(c):
                        patterns.add(ast.unparse(node))
            elif any(mentions(p) for p in parts) and any(has_str(p) for p in parts):
                text = ast.unparse(node)
                m = re.fullmatch(r"set\(op_symbol\.split\(' '\)\) == set\('(\w+)'\)", text)
                if m:
                    fams.add(("repeat", m.group(1)))
                    continue
                m = re.fullmatch(r"op_symbol\.split\('\^'\)\[0\] == '(\w+)'", text)
                if m:
                    fams.add(("power", m.group(1)))
                    continue
                m = re.fullmatch(r"'(\w+)' not in op_symbol", text)
                if m:
                    fams.add(("contains", m.group(1)))
                    continue
                m = re.fullmatch(r"op_symbol\.count\('(\w+)'\) == len\(op_symbol\)", text)
                if m:
                    fams.add(("all", m.group(1)))
                    continue
                if re.fullmatch(r"len\(op_symbol\.split\('\^'\)\) == 1", text):
                    continue     # "x" == "x^1": part of the power family
                patterns.add(text)
        elif isinstance(node, ast.Call) and isinstance(node.func, ast.Attribute) and node.func.attr == "replace" \
                and mentions(node.func.value) and len(node.args) == 2:
            a, b = strs(node.args[0]), strs(node.args[1])
            if a and b:
                aliases.add((a[0], b[0]))
    return {"literals": lits, "families": fams, "aliases": aliases, "patterns": patterns}


# --------------------------------------------------------------------------- per-class grammars
def sho_parse(symbol):
    """BasisSHO grammar: product (single spaces) of factors I | n | b | b^† | b^†+b | b^†-b | x[^k] | p[^k] | dx[^k].
    returns the list of *letters* (each a one-step operator) or None if the symbol is not in the grammar"""
    s = symbol.replace("partialx", "dx").replace(r"b^\dagger + b", r"b^\dagger+b")
    out = []
    for f in s.split(" "):
        if f in ("I",):
            continue
        if f in ("n", "b", DAG, DAG + "+b", DAG + "-b"):
            out.append(f)
            continue
        m = re.fullmatch(r"(x|p|dx)(?:\^(\d+))?", f)
        if not m:
            return None
        out += [m.group(1)] * (1 if m.group(2) is None else int(m.group(2)))
    return out


def sine_parse(symbol):
    """BasisSineDVR grammar: product of factors I | x[^k] | dx[^k] | p[^k]; returns [(letter, power)] or None"""
    s = symbol.replace("partialx", "dx")
    out = []
    for f in s.split(" "):
        if f == "I":
            continue
        m = re.fullmatch(r"(x|p|dx)(?:\^(\d+))?", f)
        if not m:
            return None
        out.append((m.group(1), 1 if m.group(2) is None else int(m.group(2))))
    return out


SPIN_LETTERS = {"I": "I", "sigma_x": "X", "X": "X", "x": "X", "sigma_y": "Y", "Y": "Y", "y": "Y",
                "isigma_y": "iY", "iY": "iY", "iy": "iY", "sigma_z": "Z", "Z": "Z", "z": "Z",
                "sigma_-": "-", "-": "-", "sigma_+": "+", "+": "+"}
HOPS_LETTERS = {"I", r"b^\dagger b", r"\tilde{b}^\dagger", r"\tilde{b}"}
ELEC_LETTERS = {"I", "a", r"a^\dagger", r"a^\dagger a"}
MULTI_LETTERS = {"I", "a", r"a^\dagger"}

KNOWN_FAMILIES = {
    "BasisSHO": {("repeat", "x"), ("power", "x"), ("repeat", "p"), ("power", "p")},
    "BasisSineDVR": {("repeat", "x"), ("contains", "dx")},
    "BasisMultiElectronVac": {("all", "I")},
}


def in_grammar(clsname, lit):
    if clsname == "BasisSHO":
        return sho_parse(lit) is not None
    if clsname == "BasisSineDVR":
        return sine_parse(lit) is not None
    if clsname == "BasisHalfSpin":
        return lit in SPIN_LETTERS
    if clsname == "BasisHopsBoson":
        return lit in HOPS_LETTERS
    if clsname == "BasisSimpleElectron":
        return lit in ELEC_LETTERS
    if clsname in ("BasisMultiElectron", "BasisMultiElectronVac"):
        return lit in MULTI_LETTERS
    if clsname == "BasisDummy":
        return lit == "I"
    return False


def coverage_gaps(cls):
    """symbols / dispatch patterns of cls.op_mat for which this module has no defining relation"""
    ex = extract_symbols(cls)
    name = cls.__name__
    gaps = [("literal", l) for l in sorted(ex["literals"]) if not in_grammar(name, l)]
    gaps += [("family",) + tuple(f) for f in sorted(ex["families"]) if f not in KNOWN_FAMILIES.get(name, set())]
    gaps += [("pattern", p) for p in sorted(ex["patterns"])]
    known_alias = {("partialx", "dx"), (r"b^\dagger + b", r"b^\dagger+b"), ("^", "**")}   # last one: syntax translation for sympy
    gaps += [("alias",) + tuple(a) for a in sorted(ex["aliases"]) if a not in known_alias]
    return ex, gaps


# =========================================================================== harmonic oscillator oracle
class ShoOracle:
    """exact matrices of products of x, p, d/dx, b, b^† for an oscillator of frequency omega whose basis functions are
    centred at x0:  x = sqrt(1/2w)(b^†+b) + x0,  p = i sqrt(w/2)(b^†-b),  d/dx = i p.  Products are formed in a basis
    that is larger than nbas by at least the number of letters, so the leading nbas x nbas block is the exact
    (infinite-basis) matrix."""

    def __init__(self, nbas, omega, x0):
        self.n, self.w, self.x0 = nbas, omega, x0

    def letter(self, l, dim):
        b = np.diag(np.sqrt(np.arange(1, dim)), k=1).astype(complex)
        bd = b.T.copy()
        if l == "b":
            return b
        if l == DAG:
            return bd
        if l == DAG + "+b":
            return bd + b
        if l == DAG + "-b":
            return bd - b
        if l == "n":
            return np.diag(np.arange(dim)).astype(complex)
        if l == "x":
            return np.sqrt(0.5 / self.w) * (bd + b) + self.x0 * np.eye(dim)
        if l == "p":
            return 1j * np.sqrt(self.w / 2) * (bd - b)
        if l == "dx":
            return -np.sqrt(self.w / 2) * (bd - b)
        raise KeyError(l)

    def product(self, letters):
        """(exact, truncprod, mask, scale): exact = leading block of the product in the written order in the large basis;
        truncprod = product of the truncated letters; mask[i,j] = True where no path through the product leaves the first
        nbas levels (entry unaffected by the truncation); scale = bound on the sum of |terms| of any evaluation order"""
        n = self.n
        dim = n + len(letters) + 2
        ex = np.eye(dim, dtype=complex)
        ab = np.eye(dim)
        cnt = np.eye(dim, dtype=np.int64)
        tp = np.eye(n, dtype=complex)
        cnt_t = np.eye(n, dtype=np.int64)
        for l in letters:
            m = self.letter(l, dim)
            ex = ex @ m
            ab = ab @ np.abs(m)
            pat = (np.abs(m) > 0).astype(np.int64)
            cnt = cnt @ pat
            tp = tp @ m[:n, :n]
            cnt_t = cnt_t @ pat[:n, :n]
        mask = cnt[:n, :n] == cnt_t
        return ex[:n, :n], tp, mask, max(1.0, float(ab[:n, :n].max()))


def hops_matrices(nbas):
    """documented relations: b~^† |n> = (n+1)|n+1>,  b~ |n> = |n-1>,  number operator diag(n)"""
    up = np.zeros((nbas, nbas))
    dn = np.zeros((nbas, nbas))
    for n in range(nbas):
        if n + 1 < nbas:
            up[n + 1, n] = n + 1
        if n - 1 >= 0:
            dn[n - 1, n] = 1.0
    return {r"\tilde{b}^\dagger": up, r"\tilde{b}": dn, r"b^\dagger b": np.diag(np.arange(nbas)).astype(float), "I": np.eye(nbas)}


# =========================================================================== spin / electrons
def pauli(letter):
    X = np.array([[0, 1], [1, 0]], dtype=complex)
    Y = np.array([[0, -1j], [1j, 0]], dtype=complex)
    Z = np.array([[1, 0], [0, -1]], dtype=complex)
    return {"I": np.eye(2, dtype=complex), "X": X, "Y": Y, "Z": Z, "iY": 1j * Y, "+": (X + 1j * Y) / 2, "-": (X - 1j * Y) / 2}[letter]


def simple_electron(sym):
    """two levels, 0 = unoccupied, 1 = occupied:  a^†|0> = |1>"""
    ad = np.array([[0.0, 0.0], [1.0, 0.0]])
    return {"I": np.eye(2), r"a^\dagger": ad, "a": ad.T.copy(), r"a^\dagger a": ad @ ad.T}[sym]


def hardcore_fock(ndof, word, vac):
    """exact product, in the written order, of hard-core ladder operators acting on `ndof` two-level DoFs, projected onto
    the states kept by the multi-electron basis: [vacuum,] |dof 0 occupied>, |dof 1 occupied>, ...
    word = [(symbol, dof index)];  also returns the product of the *projected* factors and the unaffected-entry mask"""
    dim = 2 ** ndof

    def full(sym, i):
        m = np.ones((1, 1))
        for k in range(ndof):
            m = np.kron(m, simple_electron(sym) if k == i else np.eye(2))
        return m

    keep = ([0] if vac else []) + [1 << (ndof - 1 - i) for i in range(ndof)]
    P = np.zeros((len(keep), dim))
    for r, c in enumerate(keep):
        P[r, c] = 1.0
    ex = np.eye(dim)
    cnt = np.eye(dim)
    tp = np.eye(len(keep))
    cnt_t = np.eye(len(keep))
    for sym, i in word:
        m = np.eye(dim) if sym == "I" else full(sym, i)
        ex = ex @ m
        cnt = cnt @ (np.abs(m) > 0)
        tp = tp @ (P @ m @ P.T)
        cnt_t = cnt_t @ (np.abs(P @ m @ P.T) > 0)
    return P @ ex @ P.T, tp, (P @ cnt @ P.T) == cnt_t


# =========================================================================== sine DVR oracle
class SineOracle:
    """psi_j(x) = sqrt(2/L) sin(j pi (x-x0)/L) on [x0, x0+L], j = 1..N.  Operators act on the ket function analytically
    (ket kept as A(x) sin(k u) + B(x) cos(k u) with polynomial A, B, u = x-x0) and <j|O|k> is integrated with
    scipy.integrate.quad; the tolerance of a comparison comes from quad's own error estimate."""

    def __init__(self, nbas, xi, xf, endpoint=False):
        if endpoint:
            h = (xf - xi) / (nbas - 1)
            xi, xf = xi - h, xf + h
        self.n, self.x0, self.L = nbas, xi, xf - xi

    def grid(self):
        a = np.arange(1, self.n + 1)
        return self.x0 + a * self.L / (self.n + 1)

    def rotation(self):
        a = np.arange(1, self.n + 1)
        return np.sqrt(2.0 / (self.n + 1)) * np.sin(np.outer(a, a) * np.pi / (self.n + 1))

    def ket(self, k, factors):
        """apply factors (written order: the rightmost acts first) to psi_k; returns (A, B, kappa, phase)"""
        kap = k * np.pi / self.L
        A, B = Polynomial([np.sqrt(2.0 / self.L)]), Polynomial([0.0])
        x = Polynomial([0.0, 1.0])
        phase = 1.0 + 0j
        for letter, power in reversed(factors):
            for _ in range(power):
                if letter == "x":
                    A, B = A * x, B * x
                else:
                    A, B = A.deriv() - kap * B, B.deriv() + kap * A
                    if letter == "p":
                        phase *= -1j
        return A, B, kap, phase

    def matrix(self, factors):
        """(matrix, abs error bound) of <j| product |k> by adaptive quadrature"""
        n = self.n
        mat = np.zeros((n, n), dtype=complex)
        err = 0.0
        a, b = self.x0, self.x0 + self.L
        nrm = np.sqrt(2.0 / self.L)
        for k in range(1, n + 1):
            A, B, kap, phase = self.ket(k, factors)
            for j in range(1, n + 1):
                kj = j * np.pi / self.L

                def f(x, A=A, B=B, kap=kap, kj=kj):
                    u = x - self.x0
                    return nrm * np.sin(kj * u) * (A(x) * np.sin(kap * u) + B(x) * np.cos(kap * u))
                with warnings.catch_warnings():
                    warnings.simplefilter("ignore", scipy.integrate.IntegrationWarning)
                    val, e = scipy.integrate.quad(f, a, b, epsabs=1e-13, epsrel=1e-13, limit=400)
                mat[j - 1, k - 1] = phase * val
                # when the requested accuracy is below the attainable round-off level quad's estimate can be optimistic: floor it
                err = max(err, e, 1e-12 * abs(val))
        return mat, err


# =========================================================================== dense assembly of models
def kron_all(mats):
    m = np.ones((1, 1), dtype=complex)
    for a in mats:
        m = np.kron(m, a)
    return m


def assemble(dims, terms):
    """H = sum_k c_k (x)_sites M_site (identity where a term has no matrix); site 0 is the slowest index.
    terms = [(coefficient, {site: matrix})]"""
    D = int(np.prod(dims))
    H = np.zeros((D, D), dtype=complex)
    for c, ops in terms:
        H += c * kron_all([np.asarray(ops[i], dtype=complex) if i in ops else np.eye(d) for i, d in enumerate(dims)])
    return H


def sho_full(nbas, omega):
    """x, x^2, p^2, b^†b, b^†+b as exact matrices truncated to nbas levels (origin 0)"""
    o = ShoOracle(nbas, omega, 0.0)
    return {"x": o.product(["x"])[0], "x^2": o.product(["x", "x"])[0], "p^2": o.product(["p", "p"])[0],
            "n": o.product(["n"])[0], "b+": o.product([DAG + "+b"])[0]}


def occupation_sector_masks(site_occ):
    """site_occ: per site, the number of excitations of each local state; returns total excitation number of every
    configuration (site-major)"""
    tot = np.zeros(1, dtype=int)
    for occ in site_occ:
        tot = (tot[:, None] + np.asarray(occ, dtype=int)[None, :]).reshape(-1)
    return tot


def holstein_dense(mols, jmat, scheme):
    """Displaced-oscillator Hamiltonian of the documentation, assembled in the documented site order.
    mols = [dict(elocalex, modes=[dict(w0, w1, d, nbas)])]; for every mode the ground-state surface is w0^2 x^2/2 and the
    excited-state surface of molecule i is elocalex_i + w1^2 (x-d)^2/2;  J_ij a_i^† a_j for i != j.
    returns (H, excitation number of every configuration)"""
    nmol = len(mols)
    sites = []    # ("e", imol) | ("E",) | ("ph", imol, iph)
    if scheme in (1, 2, 3):
        for i, m in enumerate(mols):
            sites.append(("e", i))
            sites += [("ph", i, k) for k in range(len(m["modes"]))]
    elif scheme == 4:
        left = nmol // 2
        for i, m in enumerate(mols):
            if i == left:
                sites.append(("E",))
            sites += [("ph", i, k) for k in range(len(m["modes"]))]
        if left == nmol:      # cannot happen (nmol//2 < nmol for nmol >= 1)
            sites.append(("E",))
    else:
        raise ValueError(scheme)
    dims, occ = [], []
    for s in sites:
        if s[0] == "e":
            dims.append(2)
            occ.append([0, 1])
        elif s[0] == "E":
            dims.append(nmol + 1)
            occ.append([0] + [1] * nmol)
        else:
            nb = mols[s[1]]["modes"][s[2]]["nbas"]
            dims.append(nb)
            occ.append([0] * nb)
    where = {s: i for i, s in enumerate(sites)}

    def elec(i, j):
        """{site: matrix} for a_i^† a_j"""
        if scheme == 4:
            m = np.zeros((nmol + 1, nmol + 1))
            m[i + 1, j + 1] = 1.0
            return {where[("E",)]: m}
        if i == j:
            return {where[("e", i)]: simple_electron(r"a^\dagger a")}
        return {where[("e", i)]: simple_electron(r"a^\dagger"), where[("e", j)]: simple_electron("a")}

    terms = []
    for i in range(nmol):
        for j in range(nmol):
            if i != j and jmat[i, j] != 0:
                terms.append((jmat[i, j], elec(i, j)))
    for i, m in enumerate(mols):
        shift = m["elocalex"]
        for k, md in enumerate(m["modes"]):
            sh = sho_full(md["nbas"], md["w0"])
            sp = where[("ph", i, k)]
            w0, w1, d = md["w0"], md["w1"], md["d"]
            terms.append((1.0, {sp: 0.5 * sh["p^2"] + 0.5 * w0 ** 2 * sh["x^2"]}))
            # n_i * [ w1^2 (x-d)^2/2 - w0^2 x^2/2 ]
            dv = 0.5 * w1 ** 2 * (sh["x^2"] - 2 * d * sh["x"] + d ** 2 * np.eye(md["nbas"])) - 0.5 * w0 ** 2 * sh["x^2"]
            t = dict(elec(i, i))
            t[sp] = dv
            terms.append((1.0, t))
        terms.append((shift, elec(i, i)))
    return assemble(dims, terms), occupation_sector_masks(occ), sites


def j_matrix_spec(n, j, periodic):
    """J_ij = j for nearest neighbours (each unordered pair once; with wrap-around if periodic), zero elsewhere off the diagonal"""
    m = np.zeros((n, n))
    for a in range(n):
        for b in range(n):
            if a != b and (abs(a - b) == 1 or (periodic and abs(a - b) == n - 1)):
                m[a, b] = j
    return m


# CODATA conversion factors taken from scipy.constants through keys that renormalizer.utils.constant does not use
def au_per_unit(unit):
    from scipy.constants import physical_constants as c
    u = unit.lower()
    if u in ("a.u.", "au"):
        return 1.0
    if u == "ev":
        return c["electron volt-hartree relationship"][0]
    if u == "mev":
        return c["electron volt-hartree relationship"][0] * 1e-3
    if u in ("cm-1", "cm^{-1}"):
        return c["inverse meter-hartree relationship"][0] * 100.0
    if u == "k":
        return c["Boltzmann constant"][0] / c["Hartree energy"][0]
    if u == "fs":
        return 1e-15 * c["Hartree energy"][0] / c["reduced Planck constant"][0]
    raise KeyError(unit)
