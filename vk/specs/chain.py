"""Specification functions for chain objects (Mps / Mpo / MpDm): independent dense contraction, the
representation invariant QNV, sector masks, small model zoo and gauge histories.

Nothing here calls the repository's own todense()/check_*_canonical: the spec is an independent
re-computation from the site tensors.  All functions work on numeric arrays and on dtype=object
arrays with exact symbolic entries (Engine S).
"""
import itertools

import numpy as np


# ------------------------------------------------------------------------------------------ dense
def site_arrays(mp):
    return [np.asarray(mp[i].array) for i in range(len(mp))]


def _coeff(mp):
    return getattr(mp, "coeff", 1)


def dense_raw(arrs):
    """contract site tensors (l, p.., r) left to right -> tensor with all physical legs"""
    t = arrs[0]
    for a in arrs[1:]:
        t = np.tensordot(t, a, axes=([t.ndim - 1], [0]))
    assert t.shape[0] == 1 and t.shape[-1] == 1, "open boundary bonds must have dimension 1"
    return t.reshape(t.shape[1:-1])


def dense_state(mps, with_coeff=True):
    v = dense_raw(site_arrays(mps)).reshape(-1)
    return v * _coeff(mps) if with_coeff else v


def dense_op(mpo, with_coeff=True):
    """matrix with row index = all 'up' legs (site-major), column = all 'down' legs"""
    t = dense_raw(site_arrays(mpo))
    n = t.ndim // 2
    ups = [2 * i for i in range(n)]
    downs = [2 * i + 1 for i in range(n)]
    t = t.transpose(ups + downs)
    d = int(np.prod(t.shape[:n])) if n else 1
    m = t.reshape(d, -1)
    return m * _coeff(mpo) if with_coeff else m


def dense(mp, with_coeff=True):
    if len(mp) and np.asarray(mp[0].array).ndim == 3:
        return dense_state(mp, with_coeff)
    return dense_op(mp, with_coeff)


# ------------------------------------------------------------------------------------------ QNV
def sigmaqn_of(mp, i):
    """per-physical-configuration charge of site i as array of shape pdim + (qn_size,)"""
    b = mp.model.basis[i]
    s = np.asarray(b.sigmaqn)
    nd = np.asarray(mp[i].array).ndim
    if nd == 3:
        return s
    up = s[:, None, :]
    down = s[None, :, :]
    if getattr(mp, "is_mpdm", False) and mp.is_mpdm:
        return up + 0 * down
    return up - down


def _nonzero(x):
    if isinstance(x, (int, float, complex, np.generic)):
        return x != 0
    return not (x == 0)


def qnv_violations(mp, tol=0.0, max_report=5):
    """QNV(mp) (DESIGN §8): returns a list of human-readable violations (empty = invariant holds)"""
    out = []
    n = len(mp)
    qn = [np.asarray(q) for q in mp.qn]
    if len(qn) != n + 1:
        return [f"len(qn)={len(qn)} != nsites+1={n + 1}"]
    bd = [np.asarray(mp[i].array).shape[0] for i in range(n)] + [np.asarray(mp[n - 1].array).shape[-1]]
    for i, q in enumerate(qn):
        if q.ndim != 2 or q.shape[0] != bd[i]:
            out.append(f"qn[{i}] has shape {q.shape}, bond dimension is {bd[i]}")
    if out:
        return out
    if np.any(qn[0] != 0) or np.any(qn[n] != 0):
        out.append("boundary labels are not zero")
    if not (0 <= mp.qnidx < n):
        out.append(f"qnidx={mp.qnidx} outside [0,{n})")
        return out
    qntot = np.asarray(mp.qntot).reshape(-1)
    for i in range(n):
        a = np.asarray(mp[i].array)
        s = sigmaqn_of(mp, i)
        if a.dtype == object:
            nz = np.array([_nonzero(x) for x in a.reshape(-1)]).reshape(a.shape)
        else:
            scale = np.abs(a).max() if a.size else 0.0
            nz = np.abs(a) > tol * max(scale, 1e-300)
        for idx in zip(*np.nonzero(nz)):
            l, r = idx[0], idx[-1]
            sig = s[idx[1:-1]]
            if i < mp.qnidx:
                ok = np.all(qn[i][l] + sig == qn[i + 1][r])
            elif i == mp.qnidx:
                ok = np.all(qn[i][l] + sig + qn[i + 1][r] == qntot)
            else:
                ok = np.all(qn[i][l] == sig + qn[i + 1][r])
            if not ok:
                out.append(f"site {i} entry {tuple(int(x) for x in idx)} is non-zero but labels "
                           f"l={qn[i][l].tolist()} sigma={np.asarray(sig).tolist()} r={qn[i + 1][r].tolist()} "
                           f"violate the rule for qnidx={mp.qnidx}, qntot={qntot.tolist()}")
                if len(out) >= max_report:
                    return out
    return out


def config_charges(model, kind="state"):
    """charge of every basis configuration (site-major order): array (dim, qn_size)"""
    per_site = [np.asarray(b.sigmaqn) for b in model.basis]
    tot = per_site[0]
    for s in per_site[1:]:
        tot = (tot[:, None, :] + s[None, :, :]).reshape(-1, s.shape[-1])
    return tot


def sector_mask(model, qntot):
    ch = config_charges(model)
    return np.all(ch == np.asarray(qntot).reshape(1, -1), axis=1)


# ------------------------------------------------------------------------------------------ isometry
def left_isometry_defect(a):
    m = np.asarray(a).reshape(-1, a.shape[-1])
    return np.abs(m.conj().T @ m - np.eye(m.shape[1])).max() if m.size else 0.0


def right_isometry_defect(a):
    m = np.asarray(a).reshape(a.shape[0], -1)
    return np.abs(m @ m.conj().T - np.eye(m.shape[0])).max() if m.size else 0.0


# ------------------------------------------------------------------------------------------ models
def model_zoo(name, n):
    """small chain models; returns (Model, list of admissible qntot)"""
    from renormalizer.model import Model, Op
    from renormalizer.model import basis as ba
    if name == "spin":            # no conserved number
        basis = [ba.BasisHalfSpin(f"s{i}") for i in range(n)]
        sectors = [0]
    elif name == "spinqn":        # one conserved number
        basis = [ba.BasisHalfSpin(f"s{i}", sigmaqn=[0, 1]) for i in range(n)]
        sectors = list(range(0, n + 1))
    elif name == "spin2qn":       # two conserved numbers (alpha on even sites, beta on odd sites)
        basis = [ba.BasisHalfSpin(f"s{i}", sigmaqn=[[0, 0], [1, 0]] if i % 2 == 0 else [[0, 0], [0, 1]]) for i in range(n)]
        na, nb = (n + 1) // 2, n // 2
        sectors = [(a, b) for a in range(na + 1) for b in range(nb + 1)]
    elif name == "holstein":      # electron / phonon alternating, phonon dims 3
        basis = []
        for i in range(n):
            if i % 2 == 0:
                basis.append(ba.BasisSimpleElectron(f"e{i}"))
            else:
                basis.append(ba.BasisSHO(f"v{i}", omega=1.0 + 0.1 * i, nbas=3))
        ne = (n + 1) // 2
        sectors = list(range(0, ne + 1))
    elif name == "multi":         # multi-electron site + oscillators
        basis = [ba.BasisMultiElectronVac([f"e{j}" for j in range(2)])] + \
                [ba.BasisSHO(f"v{i}", omega=1.0, nbas=2 + (i % 2)) for i in range(1, n)]
        sectors = [0, 1]
    else:
        raise ValueError(name)
    return Model(basis, []), sectors


def op_terms(model, rng, nterms=4, charge=None):
    """random sum-of-products terms with total charge 0 (conserving) built from the primary symbols of each site"""
    from renormalizer.model import Op
    from renormalizer.model import basis as ba
    terms = []
    sites = list(range(len(model.basis)))

    def neutral(b, dof):
        if isinstance(b, ba.BasisHalfSpin):
            if np.all(np.asarray(b.sigmaqn) == 0):
                return [("sigma_x", 0), ("sigma_z", 0), ("sigma_y", 0)]
            return [("sigma_z", 0)]
        if isinstance(b, ba.BasisSimpleElectron):
            return [(r"a^\dagger a", 0)]
        if isinstance(b, ba.BasisSHO):
            return [("x", 0), (r"b^\dagger b", 0), ("x^2", 0), ("p^2", 0)]
        return []

    for _ in range(nterms):
        k = rng.integers(1, min(3, len(sites)) + 1)
        chosen = sorted(rng.choice(sites, size=k, replace=False).tolist())
        syms, dofs, ok = [], [], True
        for s in chosen:
            b = model.basis[s]
            if getattr(b, "multi_dof", False):
                d = b.dofs[int(rng.integers(len(b.dofs)))]
                syms.append(r"a^\dagger a")
                dofs += [d, d]
                continue
            cand = neutral(b, b.dofs[0])
            if not cand:
                ok = False
                break
            sym = cand[int(rng.integers(len(cand)))][0]
            nsym = len(sym.split(" "))
            syms.append(sym)
            dofs += [b.dofs[0]] * nsym
        if not ok or not syms:
            continue
        qn = None
        f = float(rng.choice([1.0, -0.5, 2.0, 0.3]))
        try:
            if model.qn_size > 1 or any(not np.all(np.asarray(b.sigmaqn) == 0) for b in model.basis):
                # neutral primary ops: a^dagger a has qn [1, -1]
                qnl = []
                for sym in " ".join(syms).split(" "):
                    if sym == r"a^\dagger":
                        qnl.append(None)
                    elif sym == "a":
                        qnl.append(None)
                    else:
                        qnl.append(0)
                terms.append(Op(" ".join(syms), dofs, f, qn=_neutral_qn(model, " ".join(syms).split(" "), dofs)))
            else:
                terms.append(Op(" ".join(syms), dofs, f))
        except Exception:
            continue
    return terms


def _neutral_qn(model, syms, dofs):
    qs = model.qn_size
    out = []
    for sym, dof in zip(syms, dofs):
        b = model.dof_to_basis[dof]
        one = np.asarray(b.sigmaqn)[-1] if not getattr(b, "multi_dof", False) else np.asarray(b.sigmaqn)[list(b.dofs).index(dof) + (1 if len(b.sigmaqn) > len(b.dofs) else 0)]
        if sym == r"a^\dagger":
            out.append([int(x) for x in np.asarray(one).reshape(-1)])
        elif sym == "a":
            out.append([-int(x) for x in np.asarray(one).reshape(-1)])
        else:
            out.append([0] * qs)
    if qs == 1:
        return [q[0] for q in out]
    return out


# ------------------------------------------------------------------------------------------ states
def random_mps(model, qntot, m_max, rng, complex_=False, coeff=None):
    from renormalizer.mps import Mps
    st = np.random.get_state()
    np.random.seed(int(rng.integers(2 ** 31 - 1)))
    try:
        mps = Mps.random(model, qntot, m_max, percent=1.0)
    finally:
        np.random.set_state(st)
    if complex_:
        mps = mps.to_complex()
        for i in range(len(mps)):
            a = np.asarray(mps[i].array)
            ph = rng.normal(size=a.shape) + 1j * rng.normal(size=a.shape)
            mps[i] = a * (ph / np.abs(ph)) * (np.abs(a) > 0)
        # random phases break QNV? no: zero pattern unchanged
    if coeff is not None:
        mps.coeff = coeff
    return mps


GAUGE_WORDS = ["fresh", "cano", "cano2", "compress", "left", "right", "center"]


def apply_gauge(mp, word, k=None):
    """bring `mp` (a copy is returned) into a gauge history; k selects the centre for 'center'/'stop'"""
    mp = mp.copy()
    n = len(mp)
    if word == "fresh":
        return mp
    if word == "cano":
        return mp.canonicalise()
    if word == "cano2":
        return mp.canonicalise().canonicalise()
    if word == "compress":
        mp = mp.canonicalise()
        mp.compress_config = mp.compress_config.copy()
        from renormalizer.utils import CompressCriteria
        mp.compress_config.criteria = CompressCriteria.fixed
        mp.compress_config.bond_dim_max_value = 10 ** 4
        mp.compress_config.max_dims = None
        return mp.compress()
    if word == "left":
        return mp.ensure_left_canonical()
    if word == "right":
        return mp.ensure_right_canonical()
    if word == "center":
        kk = (k if k is not None else n // 2) % n
        mp.move_qnidx(kk)
        return mp
    if word == "stop":
        kk = (k if k is not None else n // 2) % n
        if mp.to_right and mp.qnidx == 0 or (not mp.to_right and mp.qnidx == n - 1):
            if kk != mp.qnidx:
                return mp.canonicalise(kk)
        return mp
    raise ValueError(word)


def bond_dims_exact_of(mp):
    """largest Schmidt rank possible at each bond (products of physical dimensions on either side; squared for operators)"""
    dims = [int(np.prod(np.asarray(mp[i].array).shape[1:-1])) for i in range(len(mp))]
    n = len(dims)
    return [min(int(np.prod(dims[:i])), int(np.prod(dims[i:]))) for i in range(n + 1)]


def complexify(mp, rng):
    """float copy with random phases on every entry (zero pattern, labels and gauge metadata kept; canonical form is not)"""
    c = mp.to_complex()
    for i in range(len(c)):
        t = np.asarray(c[i].array)
        c[i] = t * np.exp(2j * np.pi * rng.random(t.shape))
    return c
