"""Independent exact denotation of symbolic operators (C15).

`den(Op) = factor * kron_{DoFs in universe order} (ordered product of the letters written on that DoF)`;
letters on different DoFs commute, `den(OpSum) = sum of den(term)`.  Nothing here goes through
`Mpo`, `BasisSet.op_mat` or any method of `Op`/`OpSum`: only the public *fields* `symbol`, `dofs`,
`factor`, `qn_list` are read, the symbol string is tokenised by an own scanner, and all arithmetic is
exact (every float is a dyadic rational m*2^-e; matrices are NumPy object arrays of Python ints with a
common exponent).
"""
import math
import sys

import numpy as np

EPS = sys.float_info.epsilon
PLUS = r"b^\dagger + b"      # the one simple symbol that contains spaces (documented in Op)

# 2x2 integer interpretations.  "I" must be the identity; the Pauli letters are the usual ones
# (Y is used as iY, which is real); the boson-like letters of the string universe get generic integer
# matrices without accidental relations (the homomorphism has to hold in any ring).
LETTER_MATS = {
    "I": [[1, 0], [0, 1]],
    "sigma_x": [[0, 1], [1, 0]],
    "isigma_y": [[0, 1], [-1, 0]],
    "sigma_z": [[1, 0], [0, -1]],
    "sigma_+": [[0, 1], [0, 0]],
    "sigma_-": [[0, 0], [1, 0]],
    "X": [[0, 1], [1, 0]],
    "iY": [[0, 1], [-1, 0]],
    "Z": [[1, 0], [0, -1]],
    PLUS: [[1, 2], [2, -1]],
    r"b^\dagger+b": [[1, 2], [2, -1]],      # the spelling without spaces (what Op.split_symbol stores) is the same letter
    r"b^\dagger": [[0, 0], [3, 1]],
    "b": [[0, 3], [0, 1]],
    r"a^\dagger": [[0, 0], [1, 0]],
    "a": [[0, 1], [0, 0]],
    "x": [[2, 1], [1, 0]],
}


def tokenize(symbol):
    """own scanner: simple symbols are separated by single spaces, except that the phrase
    ``b^\\dagger + b`` (leftmost, non-overlapping) belongs to one simple symbol"""
    toks, cur, i, n = [], "", 0, len(symbol)
    while i < n:
        if symbol.startswith(PLUS, i):
            cur += PLUS
            i += len(PLUS)
        elif symbol[i] == " ":
            toks.append(cur)
            cur = ""
            i += 1
        else:
            cur += symbol[i]
            i += 1
    toks.append(cur)
    return toks


def norm_letter(tok):
    """the spelling `Op.split_symbol` documents for a simple symbol (inner spaces of b^\\dagger + b removed)"""
    return tok.replace(PLUS, r"b^\dagger+b")


# ------------------------------------------------------------------ exact dyadic complex numbers
def _dy(x):
    """float -> (m, e) with x == m * 2**-e exactly"""
    x = float(x)
    if x != x or x in (float("inf"), float("-inf")):
        raise ValueError(f"non-finite factor {x!r} is outside the enumerated domain")
    n, d = x.as_integer_ratio()
    return n, d.bit_length() - 1


def exact_scalar(c):
    """Python/NumPy int, float or complex -> (re, im, e): c == (re + i*im) * 2**-e exactly"""
    if isinstance(c, (bool, int, np.integer)):
        return int(c), 0, 0
    c = complex(c)
    (a, ea), (b, eb) = _dy(c.real), _dy(c.imag)
    e = max(ea, eb)
    return a << (e - ea), b << (e - eb), e


class EM:
    """exact complex matrix (re + i*im) * 2**-e, re/im object arrays of Python ints"""
    __slots__ = ("re", "im", "e")

    def __init__(self, re, im, e=0):
        self.re, self.im, self.e = re, im, e

    @staticmethod
    def zero(D):
        z = np.zeros((D, D), dtype=object)
        z[...] = 0
        return EM(z, z.copy(), 0)

    @staticmethod
    def from_int(W):
        W = np.asarray(W).astype(object)
        z = np.zeros(W.shape, dtype=object)
        z[...] = 0
        return EM(W, z, 0)

    def _lift(self, e):
        if e == self.e:
            return self.re, self.im
        s = 1 << (e - self.e)
        return self.re * s, self.im * s

    def __add__(self, o):
        e = max(self.e, o.e)
        (a, b), (c, d) = self._lift(e), o._lift(e)
        return EM(a + c, b + d, e)

    def __sub__(self, o):
        e = max(self.e, o.e)
        (a, b), (c, d) = self._lift(e), o._lift(e)
        return EM(a - c, b - d, e)

    def __neg__(self):
        return EM(-self.re, -self.im, self.e)

    def __matmul__(self, o):
        return EM(self.re @ o.re - self.im @ o.im, self.re @ o.im + self.im @ o.re, self.e + o.e)

    def smul(self, c):
        cr, ci, ce = exact_scalar(c)
        return EM(cr * self.re - ci * self.im, cr * self.im + ci * self.re, self.e + ce)

    def is_zero(self):
        return not (np.any(self.re != 0) or np.any(self.im != 0))

    def absmax(self):
        """max entry modulus as a float (integer square root rounded up, so never below the exact value by more than float rounding)"""
        m2 = max(int(a) * int(a) + int(b) * int(b) for a, b in zip(self.re.reshape(-1), self.im.reshape(-1)))
        if m2 == 0:
            return 0.0
        r = math.isqrt(m2)
        if r * r != m2:
            r += 1
        return r / (1 << self.e)

    def dist(self, o):
        return (self - o).absmax()

    def same(self, o):
        return (self - o).is_zero()


# ------------------------------------------------------------------ universes and denotation
class Universe:
    """ordered DoFs (each two-dimensional), an interpretation of letters and the fixed quantum number of
    every (letter, DoF) — a consistent labelling such as a model would require"""

    def __init__(self, name, dofs, qn_size, qn_of, letters):
        self.name, self.dofs, self.qn_size, self.qn_of, self.letters = name, list(dofs), qn_size, qn_of, list(letters)
        self.D = 2 ** len(self.dofs)
        self._w = {}
        self._d = {}

    def word(self, symbol, dofs):
        """exact integer matrix of the word (factor 1)"""
        key = (symbol, tuple(dofs))
        r = self._w.get(key)
        if r is None:
            toks = tokenize(symbol)
            if len(toks) != len(dofs):
                raise ValueError(f"symbol {symbol!r} has {len(toks)} simple symbols but {len(dofs)} DoFs")
            loc = {d: np.array([[1, 0], [0, 1]], dtype=object) for d in self.dofs}
            for t, d in zip(toks, dofs):
                loc[d] = loc[d] @ np.array(LETTER_MATS[t], dtype=object)     # written order on each DoF
            w = np.array([[1]], dtype=object)
            for d in self.dofs:
                w = np.kron(w, loc[d])
            w = w.astype(object)
            r = self._w[key] = (w, max(abs(int(x)) for x in w.reshape(-1)))
        return r

    def den_op(self, op):
        key = (op.symbol, tuple(op.dofs), complex(op.factor))      # exact float values; EM objects are never modified in place
        d = self._d.get(key)
        if d is None:
            w, _ = self.word(op.symbol, op.dofs)
            d = EM.from_int(w).smul(op.factor)
            if len(self._d) < 200000:
                self._d[key] = d
        return d

    def den(self, x):
        """x: an Op-like (has .symbol) or an iterable of them"""
        if hasattr(x, "symbol"):
            return self.den_op(x)
        out = EM.zero(self.D)
        for t in x:
            out = out + self.den_op(t)
        return out

    def scale(self, x):
        """sum_i |factor_i| * max|word_i| over the terms of x (float): the scale of one rounding"""
        terms = [x] if hasattr(x, "symbol") else list(x)
        return float(sum(abs(complex(t.factor)) * self.word(t.symbol, t.dofs)[1] for t in terms))


def sig(op):
    """field signature of an Op read directly from its public fields"""
    f = op.factor
    return (op.symbol, tuple(op.dofs), f, tuple(tuple(int(v) for v in np.asarray(q).reshape(-1)) for q in op.qn_list))


def tsig(op):
    """like sig, but distinguishing the factor type (used to de-duplicate pools without losing type variety)"""
    s = sig(op)
    return s[:2] + (type(op.factor).__name__, complex(s[2])) + s[3:]


def vsig(x):
    return ("Op", tsig(x)) if hasattr(x, "symbol") else (type(x).__name__, tuple(tsig(t) for t in x))


def squeeze_key(op):
    """the term an Op is after removal of identity letters: ((letter, dof), ...) in written order, or
    (("I", first dof),) if nothing else is left (documented behaviour of squeeze_identity)"""
    toks = tokenize(op.symbol)
    w = tuple((norm_letter(t), d) for t, d in zip(toks, op.dofs) if t != "I")
    return w if w else (("I", op.dofs[0]),)
