"""Formal sums of operator words (independent of basis matrices): specification side of the symbolic MPO / TTNO construction.

A word is a canonical tuple of (dof, (symbols on that dof in order)) with identities dropped; a formal sum maps words to coefficients
(numbers or vk.symx.poly.Poly).  `expand_chain` / `expand_tree` multiply out the symbolic site / node matrices returned by the real
constructors; `target` is sum_r x_r word(row r of the term table)."""
import numpy as np


def word_of_ops(ops):
    per = {}
    for op in ops:
        syms = op.split_symbol
        dofs = list(op.dofs)
        if len(syms) != len(dofs):      # a bare identity has symbol "I" and one dof
            if all(s == "I" for s in syms):
                continue
            raise ValueError(f"cannot align symbols and dofs of {op!r}")
        for s, d in zip(syms, dofs):
            if s == "I":
                continue
            per.setdefault(repr(d), []).append(s)
    return tuple(sorted((d, tuple(v)) for d, v in per.items()))


def merge_words(w1, w2):
    per = {d: list(v) for d, v in w1}
    for d, v in w2:
        per.setdefault(d, []).extend(v)
    return tuple(sorted((d, tuple(v)) for d, v in per.items()))


def target(table, primary_ops, factor):
    out = {}
    for r, row in enumerate(np.asarray(table)):
        w = word_of_ops([primary_ops[int(i)] for i in row])
        out[w] = out.get(w, 0) + factor[r]
    return out


def expand_chain(mpo):
    """mpo: list of 2-d object arrays, entry = list of Op"""
    state = {0: {(): 1}}
    for mo in mpo:
        nxt = {}
        for a, words in state.items():
            for b in range(mo.shape[1]):
                for op in mo[a][b]:
                    w1 = word_of_ops([op])
                    d = nxt.setdefault(b, {})
                    for w, c in words.items():
                        w2 = merge_words(w, w1)
                        d[w2] = d.get(w2, 0) + c * op.factor
        state = nxt
    assert set(state.keys()) <= {0}
    return state.get(0, {})


def expand_tree(nodes, mpo):
    """nodes: post-order list of basis-tree nodes, mpo[i]: object array [child bonds..., out bond] of lists of Op"""
    res = []          # per node: {out index: {word: coeff}}
    for i, node in enumerate(nodes):
        mo = mpo[i]
        ch = [nodes.index(c) for c in node.children]
        out = {}
        for idx, ops in np.ndenumerate(mo):
            if not ops:
                continue
            o = idx[-1]
            # product of the children's formal sums at the selected incoming indices
            partial = {(): 1}
            dead = False
            for cpos, cidx in enumerate(ch):
                sub = res[cidx].get(idx[cpos])
                if not sub:
                    dead = True
                    break
                nxt = {}
                for w, c in partial.items():
                    for w2, c2 in sub.items():
                        k = merge_words(w, w2)
                        nxt[k] = nxt.get(k, 0) + c * c2
                partial = nxt
            if dead:
                continue
            d = out.setdefault(o, {})
            for op in ops:
                w1 = word_of_ops([op])
                for w, c in partial.items():
                    k = merge_words(w, w1)
                    d[k] = d.get(k, 0) + c * op.factor
        res.append(out)
    root = res[-1]
    assert set(root.keys()) <= {0}
    return root.get(0, {})


def as_vectors(f1, f2):
    keys = sorted(set(f1) | set(f2), key=repr)
    return keys, np.array([f1.get(k, 0) for k in keys], dtype=object), np.array([f2.get(k, 0) for k in keys], dtype=object)
