"""History walker: random finite sequences of public operations over a pool of live chain objects.

After every operation three families of clauses are evaluated on *every live object*:
  frame  (C13): the represented vector (tensors x prefactor) of every object the operation is not documented to
                modify is unchanged, and results share no memory with inputs;
  sector (C06): QNV holds, amplitude outside the sector is exactly zero (masking) / below kappa*eps (after kernels),
                qntot is the expected sector;
  value  (C03): the result of arithmetic operations equals the dense expression of the operands.
"""
import numpy as np

from vk.specs import chain as S
from vk.specs import universe as U
from vk.specs import dyn as Dn

LEAK = 1e-9


class OpTimeout(Exception):
    pass


class time_limit:
    """wall-clock guard for one operation of a history (stiff local ODEs can make a single TDVP step take minutes): the operation is then
    skipped and counted as skipped, never as a violation"""

    def __init__(self, sec):
        self.sec = sec

    def __enter__(self):
        import signal

        def h(*a):
            raise OpTimeout(f"operation exceeded {self.sec}s")
        try:
            self.old = signal.signal(signal.SIGALRM, h)
            signal.alarm(self.sec)
        except ValueError:      # not in the main thread
            self.old = None

    def __exit__(self, *a):
        import signal
        if self.old is not None:
            signal.alarm(0)
            signal.signal(signal.SIGALRM, self.old)
        return False


class Live:
    def __init__(self, obj, tag):
        self.obj = obj
        self.tag = tag
        self.dense = S.dense(obj)
        self.sector = np.asarray(obj.qntot).copy()

    def meta_ok(self):
        """metadata part of the denotation: total charge unchanged and labels still valid for the tensors"""
        return bool(np.all(np.asarray(self.obj.qntot).reshape(-1) == self.sector.reshape(-1))) and not S.qnv_violations(self.obj)


def shares_memory(a, b):
    for i in range(len(a)):
        for j in range(len(b)):
            if np.shares_memory(np.asarray(a[i].array), np.asarray(b[j].array)):
                return True
    return False


EVOLVE_METHODS = ["prop_and_compress", "prop_and_compress_tdrk4", "prop_and_compress_tdrk", "tdvp_ps", "tdvp_ps2", "tdvp_vmf", "tdvp_mu_vmf", "tdvp_mu_cmf"]


def walk(name, n, seed, length, led, clauses, tier="quick", with_evolve=True):
    """clauses: subset of {"frame", "sector", "value"}"""
    from renormalizer.mps import Mpo, Mps, MpDm
    rng = np.random.default_rng([seed, n, 9001, sum(map(ord, name))])
    model, terms, sectors = Dn.hamiltonian(name, n, rng)
    H = Mpo(model, terms)
    Hd = Dn.dense_h(model, terms)
    charged = [(op, ch) for op, ch, s in U.elem_ops(model) if any(ch)]
    pool = []
    sel = list(sectors)
    rng.shuffle(sel)
    for q in sel[:2]:
        for m in (3, 2):
            st = U.make_state(model, q, m, rng, complex_=rng.random() < 0.3)
            if st is not None:
                pool.append(Live(st, f"random q={q}"))
    if not pool:
        return
    hist = []
    mask_cache = {}

    def mask(q):
        k = tuple(np.asarray(q).reshape(-1).tolist())
        if k not in mask_cache:
            mask_cache[k] = S.sector_mask(model, q)
        return mask_cache[k]

    def audit(opname, fn, modified=(), new=None, expected=None, expected_sector=None, loose=False):
        key = (name, n, seed, len(hist), opname)
        rep = {"model": name, "nsites": n, "seed": seed, "history": list(hist), "failing_op": opname,
               "how": "vk.specs.walker.walk(model, nsites, seed, ...) replays this history deterministically"}
        fields = {"op": opname}
        if "frame" in clauses:
            for L in pool:
                if L in modified or L is new:
                    continue
                cur = S.dense(L.obj)
                ok = cur.shape == L.dense.shape and np.abs(cur - L.dense).max() <= 1e-12 * max(1.0, np.abs(L.dense).max())
                led.check(ok, f"frame:{fn}:live_objects_unchanged", fn,
                          f"after {opname}: object '{L.tag}' changed by {np.abs(cur - L.dense).max() if cur.shape == L.dense.shape else 'shape'}",
                          key + ("frame", L.tag), fields, rep)
                led.check(L.meta_ok(), f"frame:{fn}:live_objects_metadata_unchanged", fn,
                          f"after {opname}: total charge / labels of '{L.tag}' changed: qntot={np.asarray(L.obj.qntot).tolist()} recorded {L.sector.tolist()}, "
                          f"qnv={S.qnv_violations(L.obj)[:1]}", key + ("frame-meta", L.tag), fields, rep)
            if new is not None and rng.random() < 0.5:
                # "derive b from a, mutate b in place through public methods, observe a"
                keep = S.dense(new.obj)
                if np.abs(keep).max() > 1e-8:
                    new.obj.scale(1.5, inplace=True)
                    (new.obj.ensure_left_canonical() if rng.random() < 0.5 else new.obj.ensure_right_canonical())
                    new.dense = S.dense(new.obj)
                    for L in pool:
                        if L is new or L in modified:
                            continue
                        cur = S.dense(L.obj)
                        ok = cur.shape == L.dense.shape and np.abs(cur - L.dense).max() <= 1e-12 * max(1.0, np.abs(L.dense).max())
                        led.check(ok, f"frame:{fn}:mutating_result_leaves_inputs", fn,
                                  f"in-place scale+canonicalise of the result of {opname} changed '{L.tag}'", key + ("mut", L.tag), fields, rep)
        if "sector" in clauses:
            for L in pool:
                if L is new or L in modified:
                    continue
                led.check(L.meta_ok(), f"post:{fn}:other_live_objects_stay_qn_valid", fn,
                          f"after {opname}: '{L.tag}' qntot={np.asarray(L.obj.qntot).tolist()} (recorded {L.sector.tolist()}) qnv={S.qnv_violations(L.obj)[:1]}",
                          key + ("sector-others", L.tag), fields, rep)
            for L in ([new] if new is not None else []) + list(modified):
                v = S.qnv_violations(L.obj)
                led.check(not v, f"post:{fn}:qn_valid", fn, f"after {opname}: labels invalid: {v[:1]}", key + ("qnv", L.tag), fields, rep)
                d = S.dense(L.obj)
                mk = mask(L.obj.qntot)
                leak = float(np.abs(d[~mk]).max()) if (~mk).any() else 0.0
                led.check(leak <= LEAK * max(1.0, float(np.abs(d).max())), f"post:{fn}:no_amplitude_outside_sector", fn,
                          f"after {opname}: amplitude {leak:.2e} outside sector {np.asarray(L.obj.qntot).tolist()}", key + ("leak", L.tag), fields, rep)
                if expected_sector is not None:
                    led.check(np.all(np.asarray(L.obj.qntot).reshape(-1) == np.asarray(expected_sector).reshape(-1)), f"post:{fn}:sector", fn,
                              f"after {opname}: qntot={np.asarray(L.obj.qntot).tolist()} expected {np.asarray(expected_sector).tolist()}",
                              key + ("sector", L.tag), fields, rep)
        if "value" in clauses and expected is not None and new is not None:
            d = S.dense(new.obj)
            tol = (1e-3 if loose else 1e-10) * max(1.0, float(np.abs(expected).max()))
            led.check(d.shape == expected.shape and np.abs(d - expected).max() <= tol, f"post:{fn}:dense_value", fn,
                      f"after {opname}: result differs from the dense expression by {np.abs(d - expected).max() if d.shape == expected.shape else 'shape'}",
                      key + ("value",), fields, rep)

    ops = ["add", "sub", "scale", "conj", "copy", "canonicalise", "compress_copy", "apply_H", "apply_charged", "move_centre",
           "expectation", "mutate_result", "normalize_copy", "distance", "to_complex", "prefactor_copy", "norm_to_coeff_copy"]
    if with_evolve:
        ops += ["evolve", "evolve"]
    for step in range(length):
        op = ops[int(rng.integers(len(ops)))]
        i = int(rng.integers(len(pool)))
        A = pool[i]
        try:
            if op in ("add", "sub"):
                same = [L for L in pool if np.all(L.sector == A.sector) and np.asarray(L.obj.qntot).shape == np.asarray(A.obj.qntot).shape]
                B = same[int(rng.integers(len(same)))]
                hist.append(f"{op}({A.tag}, {B.tag})")
                r = A.obj.add(B.obj) if op == "add" else A.obj - B.obj
                new = Live(r, f"#{step}:{op}")
                exp = A.dense + B.dense if op == "add" else A.dense - B.dense
                # Mps.add may fold prefactors into the tensors of its operands: represented vectors must not change
                pool.append(new)
                audit(op, "Mps.add" if op == "add" else "MatrixProduct.__sub__", new=new, expected=exp, expected_sector=A.sector)
            elif op == "scale":
                val = [0.5, -2.0, 0.3 + 0.4j][int(rng.integers(3))]
                hist.append(f"scale({A.tag}, {val})")
                new = Live(A.obj.scale(val), f"#{step}:scale")
                pool.append(new)
                audit(op, "MatrixProduct.scale", new=new, expected=val * A.dense, expected_sector=A.sector)
            elif op == "conj":
                hist.append(f"conj({A.tag})")
                new = Live(A.obj.conj(), f"#{step}:conj")
                pool.append(new)
                audit(op, "Mps.conj", new=new, expected=A.dense.conj(), expected_sector=A.sector)
            elif op == "copy":
                hist.append(f"copy({A.tag})")
                new = Live(A.obj.copy(), f"#{step}:copy")
                pool.append(new)
                audit(op, "MatrixProduct.copy", new=new, expected=A.dense, expected_sector=A.sector)
            elif op == "to_complex":
                hist.append(f"to_complex({A.tag})")
                new = Live(A.obj.to_complex(), f"#{step}:to_complex")
                pool.append(new)
                audit(op, "Mps.to_complex", new=new, expected=A.dense.astype(complex), expected_sector=A.sector)
            elif op == "canonicalise":
                hist.append(f"ensure_canonical_inplace({A.tag})")
                (A.obj.ensure_left_canonical() if rng.random() < 0.5 else A.obj.ensure_right_canonical())
                keep = A.dense
                A.dense = S.dense(A.obj)
                if "value" in clauses:
                    led.check(np.abs(A.dense - keep).max() <= 1e-10 * max(1.0, np.abs(keep).max()), "post:MatrixProduct.ensure_canonical:dense_unchanged",
                              "MatrixProduct.ensure_left_canonical", "gauge move changed the object", (name, n, seed, len(hist), "gauge"), {"op": op},
                              {"model": name, "nsites": n, "seed": seed, "history": list(hist)})
                audit(op, "MatrixProduct.ensure_left_canonical", modified=(A,), expected_sector=A.sector)
            elif op == "compress_copy":
                M = int(rng.integers(1, 4))
                hist.append(f"compress(copy of {A.tag}, M={M})")
                c = A.obj.copy()
                c = c.ensure_left_canonical() if rng.random() < 0.5 else c.ensure_right_canonical()
                from renormalizer.utils import CompressConfig, CompressCriteria
                c.compress_config = CompressConfig(CompressCriteria.fixed, max_bonddim=M)
                c.compress()
                new = Live(c, f"#{step}:compressM{M}")
                pool.append(new)
                audit(op, "MatrixProduct.compress", new=new, expected_sector=A.sector)
            elif op == "apply_H":
                hg = ["fresh", "cano", "compress", "center"][int(rng.integers(4))]
                hist.append(f"H[{hg}]@{A.tag}")
                Hg = S.apply_gauge(H, hg, int(rng.integers(n))) if hg != "fresh" else H
                new = Live(Hg.apply(A.obj), f"#{step}:H@")
                pool.append(new)
                audit(op, "Mpo.apply", new=new, expected=Hd @ A.dense, expected_sector=A.sector)
            elif op == "apply_charged" and charged:
                o, ch = charged[int(rng.integers(len(charged)))]
                O = Mpo(model, o)
                Od = U.dense_terms(model, [o])
                hist.append(f"{o!r}@{A.tag}")
                new = Live(O.apply(A.obj), f"#{step}:O@")
                # only keep non-vanishing results in the pool (a vanishing state has no sector to speak of)
                audit(op, "Mpo.apply", new=new, expected=Od @ A.dense, expected_sector=A.sector.reshape(-1) + np.asarray(ch))
                if np.abs(new.dense).max() > 1e-8:
                    pool.append(new)
            elif op == "move_centre":
                k = int(rng.integers(n))
                hist.append(f"move_qnidx({A.tag}, {k})")
                A.obj.move_qnidx(k)
                audit(op, "MatrixProduct.move_qnidx", modified=(A,), expected_sector=A.sector)
            elif op == "expectation":
                hist.append(f"<{A.tag}|H|{A.tag}>, e_occupations")
                e = A.obj.expectation(H)
                if "value" in clauses:
                    ref = np.vdot(A.dense, Hd @ A.dense)
                    led.check(abs(e - ref) <= 1e-9 * max(1.0, abs(ref)), "post:Mps.expectation:dense_value", "Mps.expectation", f"{e} vs {ref}",
                              (name, n, seed, len(hist), "exp"), {"op": op}, {"model": name, "nsites": n, "seed": seed, "history": list(hist)})
                audit(op, "Mps.expectation")
            elif op == "distance":
                B = pool[int(rng.integers(len(pool)))]
                if B.dense.shape == A.dense.shape and np.all(B.sector == A.sector):
                    hist.append(f"distance({A.tag},{B.tag})")
                    d = A.obj.distance(B.obj)
                    audit(op, "Mps.distance")
            elif op == "mutate_result":
                hist.append(f"b = copy-derived from {A.tag}; b.scale(3, inplace=True); b.canonicalise")
                b = A.obj.scale(1.0)
                b.scale(3.0, inplace=True)
                b.ensure_right_canonical()
                new = Live(b, f"#{step}:mut")
                pool.append(new)
                audit(op, "MatrixProduct.scale", new=new, expected=3.0 * A.dense, expected_sector=A.sector)
            elif op == "normalize_copy":
                hist.append(f"copy({A.tag}).normalize")
                c = A.obj.copy()
                c.normalize("mps_and_coeff")
                new = Live(c, f"#{step}:normalized")
                pool.append(new)
                audit(op, "Mps.normalize", new=new, expected=A.dense / max(np.linalg.norm(A.dense), 1e-300), expected_sector=A.sector)
            elif op == "prefactor_copy":
                # a copy that carries part of the vector in the scalar prefactor (public attribute coeff): later sums / distances fold it into the tensors
                c = [0.6, -1.5, 0.8j][int(rng.integers(3))]
                hist.append(f"copy({A.tag}) with coeff *= {c}")
                b = A.obj.copy()
                if isinstance(c, complex) and hasattr(b, "to_complex"):
                    b = b.to_complex()
                b.coeff = b.coeff * c
                new = Live(b, f"#{step}:coeff")
                pool.append(new)
                audit(op, "Mps.coeff", new=new, expected=c * A.dense, expected_sector=A.sector)
            elif op == "norm_to_coeff_copy":
                hist.append(f"copy({A.tag}).normalize('mps_norm_to_coeff')")
                if np.linalg.norm(A.dense) > 1e-8:
                    b = A.obj.copy()
                    b.normalize("mps_norm_to_coeff")
                    new = Live(b, f"#{step}:norm2coeff")
                    pool.append(new)
                    audit(op, "Mps.normalize", new=new, expected=A.dense, expected_sector=A.sector)
            elif op == "evolve":
                meth = EVOLVE_METHODS[int(rng.integers(len(EVOLVE_METHODS)))]
                imag = rng.random() < 0.3
                dt = 0.05 * (-1j if imag else 1.0)
                solver = "krylov" if rng.random() < 0.5 else "RK45"
                hist.append(f"evolve({A.tag}, {meth}, dt={dt}, {solver})")
                if np.linalg.norm(A.dense) < 1e-6:
                    continue
                # TDVP needs bonds no larger than the exact ranks allow (over-complete bonds from add() are outside its domain):
                # evolve a twice-canonicalised copy, which becomes a live object of its own
                src = A.obj.copy()
                src.ensure_left_canonical()
                src.canonicalise().canonicalise()
                A = Live(src, f"#{step}:canonical-copy")
                pool.append(A)
                Dn.set_evolve(src, meth, M=32, ivp_solver=solver, guess_dt=dt / 2 if imag else 0.1)
                with time_limit(30):
                    r = src.evolve(H, dt)
                new = Live(r, f"#{step}:evolve")
                pool.append(new)
                import scipy.linalg
                ref = scipy.linalg.expm(-1j * dt * Hd) @ A.dense
                if imag:
                    ref = ref / np.linalg.norm(ref)
                audit(op, f"Mps.evolve[{meth}]", new=new, expected=ref if "value" in clauses else None, expected_sector=A.sector, loose=True)
        except Exception as e:
            # whether an operation may raise on this input is decided by the property that owns the operation (C03/C04/C09 ...);
            # here only the frame / sector clauses are audited, also on the exception path
            if "total" in clauses:
                led.check(False, f"post:walker:{op}:total", f"walker:{op}", f"operation raised {type(e).__name__}: {e}", (name, n, seed, len(hist), "exc"),
                          {"op": op, "exc": type(e).__name__}, {"model": name, "nsites": n, "seed": seed, "history": list(hist)})
            else:
                led.ok(f"skipped:{op}:raised", f"walker:{op}", (name, n, seed, len(hist), "raised", type(e).__name__), nontrivial=False)
            hist.append(f"  (raised {type(e).__name__})")
            audit(op + " [exception path]", f"walker:{op}")
        if len(pool) > 14:
            del pool[2: len(pool) - 10]
