"""Specification helpers for C17 (fermionic Hamiltonians and site reordering).

Everything here is an independent construction: fermionic operators are defined on occupation-number
bit strings with the textbook sign rule (no Jordan-Wigner Kronecker products, nothing imported from
renormalizer.model.h_qc), site permutations are tensor transpositions of the dense vector, and the
fermionic re-ordering sign is the parity of the inversions among occupied orbitals.

Conventions shared with the package (read from BasisHalfSpin / Mpo, asserted by self_check()):
site 0 is the most significant index of the dense vector; local index 1 of an ab-initio site means
"orbital occupied" (sigmaqn of index 1 is the electron count), index 0 means empty.
"""
import itertools

import numpy as np


# ------------------------------------------------------------------------------------ Fock space
def occupations(n):
    """(2**n, n) array: row idx = configuration index, column j = occupation of orbital at position j"""
    idx = np.arange(2 ** n)
    return np.array([(idx >> (n - 1 - j)) & 1 for j in range(n)]).T.reshape(2 ** n, n)


def fock_annihilators(n):
    """a_j |n_0..n_{n-1}> = (-1)^{n_0+..+n_{j-1}} n_j |.., n_j - 1, ..>   (definition, written entry by entry)"""
    D = 2 ** n
    occ = occupations(n)
    ops = []
    for j in range(n):
        m = np.zeros((D, D))
        for idx in range(D):
            if occ[idx, j] == 1:
                sign = -1.0 if (int(occ[idx, :j].sum()) % 2) else 1.0
                m[idx - (1 << (n - 1 - j)), idx] = sign
        ops.append(m)
    return ops


def car_defect(a):
    """largest deviation from {a_p, a_q^+} = delta_pq, {a_p, a_q} = 0 (self-check of the reference)"""
    n = len(a)
    D = a[0].shape[0]
    worst = 0.0
    for p in range(n):
        for q in range(n):
            worst = max(worst, np.abs(a[p] @ a[q].T + a[q].T @ a[p] - (p == q) * np.eye(D)).max())
            worst = max(worst, np.abs(a[p] @ a[q] + a[q] @ a[p]).max())
    return worst


def number_ops(n):
    """diagonal N_alpha (even spin orbitals) and N_beta (odd spin orbitals), counted on the bit strings"""
    occ = occupations(n)
    return np.diag(occ[:, 0::2].sum(axis=1).astype(float)), np.diag(occ[:, 1::2].sum(axis=1).astype(float))


def _sparse_ladder(n, pos=None):
    import scipy.sparse as sp
    A = [sp.csr_matrix(m) for m in fock_annihilators(n)]
    pos = list(range(n)) if pos is None else pos
    a = [A[pos[p]] for p in range(n)]
    ad = [x.T.tocsr() for x in a]
    pair = {}

    def cc(x, y):                    # a+_x a+_y (cached)
        if (x, y) not in pair:
            pair[(x, y)] = (ad[x] @ ad[y]).tocsr()
        return pair[(x, y)]

    return a, ad, cc


def ref_spin_orbital(sh, aseri, pos=None):
    """sum_pq sh[p,q] a+_p a_q + sum_pqrs aseri[p,q,r,s] a+_p a+_q a_r a_s with orbital p living at position pos[p]
    (sparse matrices are used only for speed; the entries come from fock_annihilators)"""
    import scipy.sparse as sp
    n = len(sh)
    a, ad, cc = _sparse_ladder(n, pos)
    H = sp.csr_matrix((2 ** n, 2 ** n))
    for p, q in np.argwhere(np.asarray(sh) != 0):
        H = H + sh[p, q] * (ad[p] @ a[q])
    for p, q, r, s in np.argwhere(np.asarray(aseri) != 0):
        H = H + aseri[p, q, r, s] * (cc(p, q) @ cc(s, r).T)      # (a+_s a+_r)^T = a_r a_s
    return np.asarray(H.todense())


def ref_spatial(h, eri):
    """H = sum_{pq,s} h_pq a+_{ps} a_{qs} + 1/2 sum_{pqrs,s,t} (pq|rs) a+_{ps} a+_{rt} a_{st} a_{qs}
    (chemists' notation; spin orbital index = 2*spatial + spin, alpha = 0)."""
    import scipy.sparse as sp
    k = len(h)
    n = 2 * k
    a, ad, cc = _sparse_ladder(n)
    H = sp.csr_matrix((2 ** n, 2 ** n))
    for p in range(k):
        for q in range(k):
            if h[p, q] != 0:
                for s1 in range(2):
                    H = H + h[p, q] * (ad[2 * p + s1] @ a[2 * q + s1])
    for p, q, r, s in itertools.product(range(k), repeat=4):
        v = eri[p, q, r, s]
        if v != 0:
            for s1 in range(2):
                for s2 in range(2):
                    # a+_{p s1} a+_{r s2} a_{s s2} a_{q s1};  a_{s s2} a_{q s1} = (a+_{q s1} a+_{s s2})^T
                    H = H + 0.5 * v * (cc(2 * p + s1, 2 * r + s2) @ cc(2 * q + s1, 2 * s + s2).T)
    return np.asarray(H.todense())


# ------------------------------------------------------------------------------------ permutations
def site_perm_matrix(dims, order):
    """P with (P v)[x_order[0], x_order[1], ..] = v[x_0, x_1, ..]: new site j holds the original site order[j]"""
    dims = list(dims)
    D = int(np.prod(dims))
    n = len(dims)
    T = np.eye(D).reshape(dims + [D]).transpose(list(order) + [n])
    return T.reshape(D, D)


def fermi_sign_vector(n, order):
    """sign picked up by |occ> (creators in increasing original position) when the creators are re-sorted by new position:
    (-1)^(number of pairs of occupied orbitals whose relative order is reversed)"""
    newpos = {o: j for j, o in enumerate(order)}
    occ = occupations(n)
    sg = np.ones(2 ** n)
    for idx in range(2 ** n):
        os_ = [o for o in range(n) if occ[idx, o]]
        inv = sum(1 for x in range(len(os_)) for y in range(x + 1, len(os_)) if newpos[os_[x]] > newpos[os_[y]])
        if inv % 2:
            sg[idx] = -1.0
    return sg


def fermi_perm_matrix(n, order):
    """fermionic re-ordering of n two-level sites: site permutation times the re-sorting sign (indexed by the old configuration)"""
    return site_perm_matrix([2] * n, order) @ np.diag(fermi_sign_vector(n, order))


def adjacent_fswap(n, i):
    """fermionic swap of positions i, i+1: transposition times (-1)^{n_i n_{i+1}} (independent two-site definition)"""
    occ = occupations(n)
    cz = np.where((occ[:, i] == 1) & (occ[:, i + 1] == 1), -1.0, 1.0)
    order = list(range(n))
    order[i], order[i + 1] = order[i + 1], order[i]
    return site_perm_matrix([2] * n, order) @ np.diag(cz)


def self_check():
    """internal consistency of the reference itself (a failure is a harness error, never a violation)"""
    for n in (1, 2, 3, 4):
        a = fock_annihilators(n)
        assert car_defect(a) == 0.0
    n = 4
    for order in itertools.permutations(range(n)):
        # a sequence of adjacent fermionic swaps realising `order` equals the closed-form sign rule (path independence)
        cur = list(range(n))
        M = np.eye(2 ** n)
        target = list(order)
        for j in range(n):
            k = cur.index(target[j])
            while k > j:
                M = adjacent_fswap(n, k - 1) @ M
                cur[k - 1], cur[k] = cur[k], cur[k - 1]
                k -= 1
        assert cur == target
        assert np.array_equal(M, fermi_perm_matrix(n, order))
        # re-ordered ladder operators: F a_p F^T is the Fock operator at the new position of orbital p
        a = fock_annihilators(n)
        F = fermi_perm_matrix(n, order)
        for p in range(n):
            assert np.array_equal(F @ a[p] @ F.T, a[list(order).index(p)])


# ------------------------------------------------------------------------------------ integrals
def symmetrise8(e):
    e = e + e.transpose(1, 0, 2, 3)
    e = e + e.transpose(0, 1, 3, 2)
    e = e + e.transpose(2, 3, 0, 1)
    return e


def unique_h(k):
    return [(p, q) for p in range(k) for q in range(p, k)]


def unique_eri(k):
    """representatives of the 8-fold symmetry classes of (pq|rs)"""
    seen, out = set(), []
    for p, q, r, s in itertools.product(range(k), repeat=4):
        orb = {(p, q, r, s), (q, p, r, s), (p, q, s, r), (q, p, s, r), (r, s, p, q), (s, r, p, q), (r, s, q, p), (s, r, q, p)}
        rep = min(orb)
        if rep not in seen:
            seen.add(rep)
            out.append(rep)
    return out


def fill_from_unique(k, hvals, evals):
    h = np.zeros((k, k))
    for (p, q), v in zip(unique_h(k), hvals):
        h[p, q] = h[q, p] = v
    e = np.zeros((k, k, k, k))
    for (p, q, r, s), v in zip(unique_eri(k), evals):
        for t in {(p, q, r, s), (q, p, r, s), (p, q, s, r), (q, p, s, r), (r, s, p, q), (s, r, p, q), (r, s, q, p), (s, r, q, p)}:
            e[t] = v
    return h, e


VALUE_POOL = [1.0, -1.0, 0.5]


def integrals(k, kind, rng, pattern=None):
    """symmetric h (k,k) and 8-fold symmetric eri (k,k,k,k).
    kind: dense | sparse | h0 | eri0 | zero_row | block | pattern (explicit 0/1 mask over the unique entries, values from the pool)"""
    nh, ne = len(unique_h(k)), len(unique_eri(k))
    if kind == "pattern":
        bits = list(pattern)
        vals = [VALUE_POOL[int(rng.integers(3))] if b else 0.0 for b in bits]
        return fill_from_unique(k, vals[:nh], vals[nh:])
    if kind == "sparse":
        keep_h = rng.random(nh) < 0.5
        keep_e = rng.random(ne) < 0.35
        hv = [VALUE_POOL[int(rng.integers(3))] if b else 0.0 for b in keep_h]
        ev = [VALUE_POOL[int(rng.integers(3))] if b else 0.0 for b in keep_e]
        if not any(hv) and not any(ev):
            ev[int(rng.integers(ne))] = 0.5
        return fill_from_unique(k, hv, ev)
    h = rng.normal(size=(k, k))
    h = h + h.T
    e = symmetrise8(rng.normal(size=(k, k, k, k))) / 4
    if kind == "dense":
        return h, e
    if kind == "h0":
        return np.zeros((k, k)), e
    if kind == "eri0":
        return h, np.zeros((k, k, k, k))
    if kind == "zero_row":          # one spatial orbital decoupled at the one-electron level (zero row and column of h)
        z = int(rng.integers(k))
        h[z, :] = 0
        h[:, z] = 0
        return h, e
    if kind == "block":             # two groups of orbitals: every integral that mixes the groups vanishes
        grp = np.array([0] + [int(rng.integers(2)) for _ in range(k - 1)])
        if k > 1 and grp.sum() == 0:
            grp[-1] = 1
        same2 = grp[:, None] == grp[None, :]
        h = h * same2
        m4 = (grp[:, None, None, None] == grp[None, :, None, None]) & (grp[None, None, :, None] == grp[None, None, None, :])
        return h, e * m4
    raise ValueError(kind)


def raw_spin_tensors(n, rng, conserving):
    """arbitrary (non-symmetric) spin-orbital coefficient tensors with every index ordering present; `conserving` keeps
    only entries that preserve N_alpha and N_beta"""
    sh = np.where(rng.random((n, n)) < 0.6, rng.normal(size=(n, n)), 0.0)
    dens = {1: 1.0, 2: 0.7, 3: 0.4, 4: 0.2}.get(n, 40.0 / n ** 4)
    g = np.where(rng.random((n,) * 4) < dens, rng.normal(size=(n,) * 4), 0.0)
    if conserving:
        par = np.arange(n) % 2
        sh = sh * (par[:, None] == par[None, :])
        m = np.zeros((n,) * 4, dtype=bool)
        for p, q, r, s in itertools.product(range(n), repeat=4):
            cr = sorted([par[p], par[q]])
            an = sorted([par[r], par[s]])
            m[p, q, r, s] = cr == an
        g = g * m
    if not np.any(sh):
        sh[0, 0] = 0.7
    return sh, g


# ------------------------------------------------------------------------------------ models for the swap / OFS part
def order_of(model_or_basis, ref_dofs):
    """order[j] = index (in the reference site list) of the site now at position j"""
    basis = getattr(model_or_basis, "basis", model_or_basis)
    first = [b.dofs[0] for b in basis]
    return [ref_dofs.index(d) for d in first]


def long_names(terms):
    """the same Jordan-Wigner terms written with the long symbol names of BasisHalfSpin"""
    from renormalizer.model import Op
    tr = {"+": "sigma_+", "-": "sigma_-", "Z": "sigma_z"}
    return [Op(" ".join(tr[s] for s in t.split_symbol), t.dofs, t.factor, t.qn_list) for t in terms]


def physical_integrals(k, rng):
    """symmetric integrals with a well separated one-electron ladder and moderate repulsion (non-degenerate spectra)"""
    h = 0.3 * rng.normal(size=(k, k))
    h = h + h.T + np.diag(np.arange(k) * 1.0 - 1.0)
    e = 0.15 * symmetrise8(rng.normal(size=(k, k, k, k))) / 4
    for p in range(k):
        e[p, p, p, p] += 0.6
    return h, e


def hermitian_model(name, n, rng):
    """small Hermitian chain models for the swap / OFS contracts: returns (Model, admissible sectors, ab-initio data or None).
    spin: no conserved number, sigma_x / sigma_z / (sigma_+ sigma_- + h.c.) couplings with non-uniform coefficients;
    spinqn: XXZ-like with one conserved number; vibronic: electron sites and oscillators of dimension 3/4 (Holstein-Peierls form)."""
    from renormalizer.model import Model, Op
    from renormalizer.model import basis as ba
    c = lambda: float(rng.uniform(0.3, 1.3) * (1 if rng.random() < 0.5 else -1))
    if name == "spin":
        basis = [ba.BasisHalfSpin(f"s{i}") for i in range(n)]
        terms = []
        for i in range(n):
            terms.append(Op("sigma_z", f"s{i}", c()))
            terms.append(Op("sigma_x", f"s{i}", c()))
        for i in range(n):
            for j in range(i + 1, n):
                if j == i + 1 or rng.random() < 0.5:
                    g = c()
                    terms.append(Op("sigma_+ sigma_-", [f"s{i}", f"s{j}"], g))
                    terms.append(Op("sigma_- sigma_+", [f"s{i}", f"s{j}"], g))
                    terms.append(Op("sigma_z sigma_z", [f"s{i}", f"s{j}"], c()))
        if n >= 3:
            terms.append(Op("sigma_x sigma_z sigma_x", ["s0", "s1", "s2"], c()))
        return Model(basis, terms), [0], None
    if name == "spinqn":
        basis = [ba.BasisHalfSpin(f"s{i}", sigmaqn=[0, 1]) for i in range(n)]
        terms = []
        for i in range(n):
            terms.append(Op("sigma_z", f"s{i}", c(), qn=0))
        for i in range(n):
            for j in range(i + 1, n):
                if j == i + 1 or rng.random() < 0.5:
                    g = c()
                    terms.append(Op("sigma_+ sigma_-", [f"s{i}", f"s{j}"], g, qn=[-1, 1]))
                    terms.append(Op("sigma_- sigma_+", [f"s{i}", f"s{j}"], g, qn=[1, -1]))
                    terms.append(Op("sigma_z sigma_z", [f"s{i}", f"s{j}"], c(), qn=[0, 0]))
        return Model(basis, terms), list(range(1, n)) or [0, 1], None
    if name == "vibronic":
        basis, terms, el, vib = [], [], [], []
        for i in range(n):
            if i % 2 == 0:
                basis.append(ba.BasisSimpleElectron(f"e{i}"))
                el.append(f"e{i}")
            else:
                basis.append(ba.BasisSHO(f"v{i}", omega=0.7 + 0.25 * i, nbas=3 + (i // 2) % 2))
                vib.append((f"v{i}", 0.7 + 0.25 * i))
        for e in el:
            terms.append(Op(r"a^\dagger a", e, c(), qn=[1, -1]))
        for x in range(len(el)):
            for y in range(x + 1, len(el)):
                g = c()
                terms.append(Op(r"a^\dagger a", [el[x], el[y]], g, qn=[1, -1]))
                terms.append(Op(r"a^\dagger a", [el[y], el[x]], g, qn=[1, -1]))
        for v, w in vib:
            terms.append(Op(r"b^\dagger b", v, w))
            for e in el:
                terms.append(Op(r"a^\dagger a x", [e, e, v], 0.5 * c(), qn=[1, -1, 0]))
        if len(el) >= 2 and vib:     # Peierls-type coupling
            g = 0.3 * c()
            terms.append(Op(r"a^\dagger a x", [el[0], el[1], vib[0][0]], g, qn=[1, -1, 0]))
            terms.append(Op(r"a^\dagger a x", [el[1], el[0], vib[0][0]], g, qn=[1, -1, 0]))
        return Model(basis, terms), [1], None
    raise ValueError(name)


def sector_ground(Hd, mask):
    """(lowest eigenvalue, gap to the next one, eigenvector embedded in the full space) of the Hermitian Hd on the sector"""
    idx = np.nonzero(mask)[0]
    w, v = np.linalg.eigh(Hd[np.ix_(idx, idx)])
    full = np.zeros(Hd.shape[0], dtype=v.dtype)
    full[idx] = v[:, 0]
    gap = (w[1] - w[0]) if len(w) > 1 else np.inf
    return w[0], gap, full


def schmidt_values(vec, dims, cut):
    """singular values of the dense state across the bond between sites cut-1 | cut (independent SVD)"""
    dl = int(np.prod(dims[:cut]))
    return np.linalg.svd(np.asarray(vec).reshape(dl, -1), compute_uv=False)


def entropy(s):
    p = np.asarray(s, dtype=float) ** 2
    p = p / p.sum()
    p = p[p > 1e-300]
    return float(-(p * np.log(p)).sum())
