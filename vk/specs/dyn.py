"""Small physical (Hermitian, number-conserving) Hamiltonians with dense reference, and evolution helpers."""
import numpy as np

from vk.specs import chain as S
from vk.specs import universe as U


def hamiltonian(name, n, rng, scale=1.0):
    """returns (model_with_terms, terms).  Hermitian by construction (each hopping comes with its adjoint)."""
    from renormalizer.model import Model, Op
    # "<name>-flux": the same model with complex hopping amplitudes J e^{i phi} (and the conjugate on the adjoint term): a complex HERMITIAN Hamiltonian
    flux = name.endswith("-flux")
    name = name[:-5] if flux else name
    phase = (lambda: complex(np.exp(1j * float(rng.uniform(0.3, 2.8))))) if flux else (lambda: 1.0)
    model0, sectors = S.model_zoo(name, n)
    basis = model0.basis
    qs = model0.qn_size
    terms = []

    def one(sym, dof, f=1.0):
        b = model0.dof_to_basis[dof]
        parts = sym.split(" ")
        if len(parts) > 1:
            qn = []
            for p_ in parts:
                c1 = U.op_charge(b, Op(p_, dof))
                qn.append(list(c1) if qs > 1 else c1[0])
            return Op(sym, [dof] * len(parts), f, qn=qn)
        ch = U.op_charge(b, Op(sym, dof))
        return Op(sym, dof, f, qn=ch[0] if qs == 1 else [list(ch)])

    if name in ("spinqn", "spin2qn", "spin"):
        dofs = [b.dofs[0] for b in basis]
        for i in range(n):
            terms.append(one("sigma_z", dofs[i], scale * float(rng.uniform(-0.5, 0.5))))
        for i in range(n - 1):
            J = scale * float(rng.uniform(0.3, 1.0))
            same_species = name != "spin2qn"
            j = i + 1 if same_species else i + 2
            if j < n:
                ph = phase()
                terms.append(one("sigma_+", dofs[i]) * one("sigma_-", dofs[j]) * (J * ph))
                terms.append(one("sigma_-", dofs[i]) * one("sigma_+", dofs[j]) * (J * np.conj(ph)))
            terms.append(one("sigma_z", dofs[i]) * one("sigma_z", dofs[i + 1]) * (scale * float(rng.uniform(-0.4, 0.4))))
        if name == "spin":
            for i in range(n):
                terms.append(one("sigma_x", dofs[i], scale * float(rng.uniform(-0.6, 0.6))))
    elif name == "holstein":
        e = [b.dofs[0] for b in basis if type(b).__name__ == "BasisSimpleElectron"]
        v = [b.dofs[0] for b in basis if type(b).__name__ == "BasisSHO"]
        for i, d in enumerate(e):
            terms.append(one(r"a^\dagger a", d, scale * float(rng.uniform(-0.3, 0.3))))
        for i in range(len(e) - 1):
            J = scale * float(rng.uniform(0.3, 0.8))
            ph = phase()
            terms.append(one(r"a^\dagger", e[i]) * one("a", e[i + 1]) * (J * ph))
            terms.append(one("a", e[i]) * one(r"a^\dagger", e[i + 1]) * (J * np.conj(ph)))
        for i, d in enumerate(v):
            b = model0.dof_to_basis[d]
            terms.append(one(r"b^\dagger b", d, scale * b.omega))
            if i < len(e):
                terms.append(one(r"a^\dagger a", e[i]) * one("x", d) * (scale * float(rng.uniform(0.2, 0.6))))
    else:
        raise ValueError(name)
    model = Model(basis, terms)
    return model, terms, sectors


def dense_h(model, terms):
    H = U.dense_terms(model, terms)
    return H


def set_evolve(mps, method, M=None, **kw):
    from renormalizer.utils import EvolveConfig, EvolveMethod, CompressConfig, CompressCriteria
    cfg = EvolveConfig(getattr(EvolveMethod, method), **kw)
    mps.evolve_config = cfg
    if M is not None:
        mps.compress_config = CompressConfig(CompressCriteria.fixed, max_bonddim=M)
    return mps


def expm_apply(Hd, v, t):
    import scipy.linalg
    return scipy.linalg.expm(-1j * t * Hd) @ v
