"""Specification functions for tree tensor networks: tree enumeration, independent dense contraction, QNV_T."""
import itertools

import numpy as np


# ------------------------------------------------------------------------------------------ tree shapes
def tree_shapes(n, _cache={}):
    """all rooted ordered trees with n nodes, as nested tuples of children"""
    if n in _cache:
        return _cache[n]
    if n == 1:
        res = [()]
    else:
        res = []

        def forests(total):
            if total == 0:
                yield ()
                return
            for k in range(1, total + 1):
                for t in tree_shapes(k):
                    for rest in forests(total - k):
                        yield (t,) + rest
        res = list(forests(n - 1))
    _cache[n] = res
    return res


def shape_size(t):
    return 1 + sum(shape_size(c) for c in t)


def build_basis_tree(shape, payloads):
    """payloads: list (preorder) of lists of BasisSet (empty list = dummy node)"""
    from renormalizer.tn import BasisTree, TreeNodeBasis
    it = iter(payloads)

    def rec(t):
        p = next(it)
        node = TreeNodeBasis(list(p) if p else None)
        for c in t:
            node.add_child(rec(c))
        return node
    root = rec(shape)
    return BasisTree(root)


def make_basis(kind, label, rng=None):
    """rng given: oscillator parameters vary from tree to tree (same dof names, class and size; different omega / x0)"""
    from renormalizer.model import basis as ba
    if rng is not None and kind in ("sho", "sho2"):
        return ba.BasisSHO(label, omega=float([0.7, 1.0, 1.4, 1.9][int(rng.integers(4))]), nbas=3 if kind == "sho" else 2, x0=float([0.0, 0.0, 0.3][int(rng.integers(3))]))
    if kind == "spin":
        return ba.BasisHalfSpin(label)
    if kind == "spinqn":
        return ba.BasisHalfSpin(label, sigmaqn=[0, 1])
    if kind == "sho":
        return ba.BasisSHO(label, omega=1.0, nbas=3)
    if kind == "e":
        return ba.BasisSimpleElectron(label)
    if kind == "sho2":
        return ba.BasisSHO(label, omega=1.4, nbas=2)
    raise ValueError(kind)


def random_tree(rng, n_nodes, flavour, max_group=2, allow_dummy=True):
    """random shape with n_nodes nodes and random payloads; returns (BasisTree, list of non-dummy basis sets in creation order)"""
    shapes = tree_shapes(n_nodes)
    shape = shapes[int(rng.integers(len(shapes)))]
    payloads, created = [], []
    cnt = 0
    for i in range(n_nodes):
        if allow_dummy and n_nodes >= 3 and rng.random() < 0.2:
            payloads.append([])
            continue
        k = int(rng.integers(1, max_group + 1))
        group = []
        for _ in range(k):
            if flavour == "spin":
                b = make_basis("spin", f"s{cnt}")
            elif flavour == "spinqn":
                b = make_basis("spinqn", f"s{cnt}")
            elif flavour == "modes":
                # oscillators only, two sizes, frequencies / origins drawn per mode: basis sets of the same class and size that differ in their parameters
                # end up on the same node
                b = make_basis("sho2" if cnt % 3 else "sho", f"v{cnt}", rng)
            else:  # holstein-like
                b = make_basis("e" if cnt % 2 == 0 else ("sho2" if cnt % 4 == 1 else "sho"), f"{'e' if cnt % 2 == 0 else 'v'}{cnt}", rng)
            cnt += 1
            group.append(b)
            created.append(b)
        payloads.append(group)
    if len(created) < 2:
        return random_tree(rng, n_nodes, flavour, max_group, allow_dummy=False)
    return build_basis_tree(shape, payloads), created, shape


# ------------------------------------------------------------------------------------------ dense contraction (independent of oe_contract paths)
def _is_dummy(b):
    return type(b).__name__ == "BasisDummy"


def dense_ttns(ttns, order=None, with_coeff=True):
    """vector with physical legs ordered as `order` (default: basis.basis_list without dummies)"""
    basis = ttns.basis

    def rec(snode):
        bnode = ttns.tn2bn[snode] if hasattr(ttns, "tn2bn") else basis.node_list[ttns.node_idx[snode]]
        t = np.asarray(snode.tensor)
        labels = []
        nch = len(snode.children)
        # legs: children..., phys..., parent ; contract children one at a time (always leg 0)
        cur = t
        for c in snode.children:
            ct, cl = rec(c)                      # legs: phys(cl)..., parent
            cur = np.tensordot(cur, ct, axes=([0], [ct.ndim - 1]))   # removes child leg, appends child's physical legs at the end
            labels_child = cl
            labels.append(labels_child)
        # cur legs now: phys(own)..., parent, child1 phys..., child2 phys...
        own = [b for b in bnode.basis_sets]
        k = len(own)
        nd = cur.ndim
        # reorder to: own phys, child phys..., parent
        perm = list(range(0, k)) + list(range(k + 1, nd)) + [k]
        cur = cur.transpose(perm)
        lab = [b for b in own] + [x for l in labels for x in l]
        return cur, lab
    t, lab = rec(ttns.root)
    assert t.shape[-1] == 1
    t = t.reshape(t.shape[:-1])
    keep = [i for i, b in enumerate(lab) if not _is_dummy(b)]
    t = t.reshape([t.shape[i] for i in keep]) if len(keep) != t.ndim else t
    lab = [lab[i] for i in keep]
    if order is None:
        order = [b for b in basis.basis_list if not _is_dummy(b)]
    perm = [lab.index(b) for b in order]
    v = t.transpose(perm).reshape(-1)
    if with_coeff:
        v = v * getattr(ttns, "coeff", 1)
    return v


def dense_ttno(ttno, order=None):
    basis = ttno.basis

    def rec(onode):
        bnode = basis.node_list[ttno.node_idx[onode]]
        cur = np.asarray(onode.tensor)
        labels = []
        for c in onode.children:
            ct, cl = rec(c)
            cur = np.tensordot(cur, ct, axes=([0], [ct.ndim - 1]))
            labels.append(cl)
        own = list(bnode.basis_sets)
        k = 2 * len(own)
        nd = cur.ndim
        perm = list(range(0, k)) + list(range(k + 1, nd)) + [k]
        cur = cur.transpose(perm)
        lab = []
        for b in own:
            lab += [("up", b), ("down", b)]
        lab += [x for l in labels for x in l]
        return cur, lab
    t, lab = rec(ttno.root)
    t = t.reshape(t.shape[:-1])
    if order is None:
        order = [b for b in basis.basis_list if not _is_dummy(b)]
    ups = [lab.index(("up", b)) for b in order]
    downs = [lab.index(("down", b)) for b in order]
    dummies = [i for i, (_, b) in enumerate(lab) if _is_dummy(b)]
    t = t.transpose(ups + downs + dummies)
    d = int(np.prod([b.nbas for b in order]))
    return t.reshape(d, d)


# ------------------------------------------------------------------------------------------ QNV_T
def qnv_tree_violations(ttns, max_report=4):
    """labels of the bond to the parent are consistent with the non-zero entries of every node (root: total charge)"""
    out = []
    basis = ttns.basis
    qntot = np.asarray(ttns.root.qn).reshape(-1, basis.qn_size)[0]
    for snode in ttns.node_list:
        bnode = basis.node_list[ttns.node_idx[snode]]
        a = np.asarray(snode.tensor)
        nch = len(snode.children)
        is_op = a.ndim == nch + 2 * bnode.n_sets + 1
        qn = np.asarray(snode.qn)
        if qn.shape[0] != a.shape[-1]:
            out.append(f"node {ttns.node_idx[snode]}: qn rows {qn.shape[0]} != parent bond {a.shape[-1]}")
            continue
        if a.dtype == object:
            nzmask = np.array([bool(x != 0) for x in a.reshape(-1)]).reshape(a.shape)
        else:
            scale = np.abs(a).max() if a.size else 0
            nzmask = np.abs(a) > 1e-14 * max(scale, 1e-300)
        for idx in zip(*np.nonzero(nzmask)):
            tot = np.zeros(basis.qn_size, dtype=int)
            for i, c in enumerate(snode.children):
                tot = tot + np.asarray(c.qn)[idx[i]]
            for j, b in enumerate(bnode.basis_sets):
                s = np.asarray(b.sigmaqn)
                if is_op:
                    tot = tot + s[idx[nch + 2 * j]] - s[idx[nch + 2 * j + 1]]
                else:
                    tot = tot + s[idx[nch + j]]
            want = qn[idx[-1]] if snode.parent is not None else qntot
            if not np.all(tot == want):
                out.append(f"node {ttns.node_idx[snode]} entry {tuple(int(x) for x in idx)}: children+physical charge {tot.tolist()} != bond label {np.asarray(want).tolist()}")
                if len(out) >= max_report:
                    return out
    return out


def chain_order_model(basis_list):
    from renormalizer.model import Model
    return Model(list(basis_list), [])
