"""Bounded engine harness: run case workers in a process pool and merge their ledgers into a Run."""
import traceback

from vk.rtc.pool import pmap


class Ledger:
    """picklable result of one worker"""

    def __init__(self):
        self.evals = []     # (contract id, function, key, nontrivial)
        self.viol = []      # (obligation id, function, what, fields, replay)
        self.errors = []    # (where, repr)
        self.samples = []

    def ok(self, cid, fn, key, nontrivial=True):
        self.evals.append((cid, fn, key, nontrivial))

    def check(self, cond, oid, fn, what, key, fields=None, replay=None, nontrivial=True):
        self.evals.append((oid, fn, key, nontrivial))
        if not cond:
            self.viol.append((oid, fn, what, fields or {}, replay or {}))
        return cond

    def error(self, where, exc):
        self.errors.append((where, repr(exc), traceback.format_exc()[-1500:]))


def _wrap(args):
    worker, case = args
    led = Ledger()
    try:
        worker(case, led)
    except Exception as e:   # a crash in the harness is a checker error, never a violation
        led.error(f"worker {getattr(worker, '__name__', worker)} case {case!r}", e)
    return led


def run_cases(run, worker, cases, procs=None, sample_every=None):
    cases = list(cases)
    leds = pmap(_wrap, [(worker, c) for c in cases], procs=procs)
    for c, led in zip(cases, leds):
        for cid, fn, key, nt in led.evals:
            run.bounded_eval(cid, fn, key=key, nontrivial=nt)
        for oid, fn, what, fields, replay in led.viol:
            run.violation(oid, fn, what, fields=fields, replay=replay)
        for where, r, tb in led.errors:
            run.crashes.append({"where": where, "error": r, "traceback": tb})
            print(f"CHECKER-ERROR at {where}: {r}")
        for s in led.samples:
            run.sample(s)
    return leds
