"""Process pool helper for bounded engines (fork; 16 cores)."""
import multiprocessing as mp
import os


def ncores():
    if os.environ.get("VERIF_PROCS", "").isdigit():      # sweeps that run several checks side by side limit each pool
        return max(1, int(os.environ["VERIF_PROCS"]))
    try:
        return max(1, min(16, len(os.sched_getaffinity(0))))
    except Exception:
        return 4


def pmap(fn, items, chunksize=None, procs=None):
    items = list(items)
    if not items:
        return []
    procs = procs or ncores()
    if procs == 1 or len(items) == 1:
        return [fn(x) for x in items]
    ctx = mp.get_context("fork")
    with ctx.Pool(procs) as pool:
        return pool.map(fn, items, chunksize or max(1, len(items) // (procs * 8)))
