"""Native (CPython) evaluation of the same spec strings that pyvc turns into z3 formulas."""


def implies(a, b):
    return (not a) or bool(b)


def iff(a, b):
    return bool(a) == bool(b)


def ite(c, a, b):
    return a if c else b


HELPERS = {"implies": implies, "iff": iff, "ite": ite}


def holds(expr, env):
    g = dict(HELPERS)
    g.update(env)
    return bool(eval(expr, g))
