"""pyvc — Engine A: a verification-condition generator for a subset of Python.

The real source of the function under contract is re-read from /repo with `ast` on every run and
executed *symbolically* (forward, path by path).  Loops are cut by sidecar invariants (init /
preservation / exit obligations), calls to functions with a sidecar contract are replaced by the
contract (assert requires, havoc modifies, assume ensures), nested `def`s are inlined.  Specs
(requires / ensures / invariants) are ordinary Python expressions; the same evaluator turns them into
z3 formulas (`all(... for ...)`/`any(...)` become quantifiers), and `eval` runs them natively in the
runtime-contract engine and in replays.  Every obligation is `path-condition ∧ ¬goal` checked for
unsat by z3 (Python API, 5.1), with /usr/bin/cvc5 and /usr/bin/z3 4.8 as second opinions on `unknown`.

Semantics assumed (reported in evidence): Python int = mathematical integer, float = real,
`//` `%` floor semantics for a positive divisor (obligation: divisor > 0), left-to-right evaluation,
`assert` raises (no -O), set.pop() returns an arbitrary member, list indices are proved to be within
[0, len) unless the sidecar says bounds="assume-nonneg" (negative indices are outside the subset).
"""
import ast
import itertools
import time

import z3

# ----------------------------------------------------------------------------------------------
# values


class VCError(Exception):
    """construct outside the supported subset -> function is reported outside-subset / contract stale"""


class PathDead(Exception):
    pass


_fresh_counter = itertools.count()


def fresh(prefix, sort):
    return z3.Const(f"{prefix}!{next(_fresh_counter)}", sort)


OptInt = z3.Datatype("OptInt")
OptInt.declare("none")
OptInt.declare("some", ("val", z3.IntSort()))
OptInt = OptInt.create()

Str = z3.DeclareSort("Str")
_str_consts = {}


def str_const(s):
    if s not in _str_consts:
        _str_consts[s] = z3.Const("str_" + "".join(c if c.isalnum() else "_" for c in s) + f"_{len(_str_consts)}", Str)
    return _str_consts[s]


class Kind:
    pass


class ScalarK(Kind):
    def __init__(self, name, sort):
        self.name, self._sort = name, sort

    def sort(self):
        return self._sort

    def wrap(self, e):
        return e

    def unwrap(self, v):
        return to_z3(v, self)

    def fresh(self, prefix):
        return fresh(prefix, self._sort)

    def __repr__(self):
        return self.name


IntK = ScalarK("int", z3.IntSort())
RealK = ScalarK("real", z3.RealSort())
BoolK = ScalarK("bool", z3.BoolSort())
StrK = ScalarK("str", Str)


class OptK(Kind):
    name = "opt[int]"

    def sort(self):
        return OptInt

    def wrap(self, e):
        return OptV(e)

    def unwrap(self, v):
        if v is None:
            return OptInt.none
        if isinstance(v, OptV):
            return v.e
        return OptInt.some(to_z3(v, IntK))

    def fresh(self, prefix):
        return OptV(fresh(prefix, OptInt))

    def __repr__(self):
        return self.name


OptIntK = OptK()


class OptV:
    """Optional[int] value"""

    def __init__(self, e):
        self.e = e

    @property
    def is_none(self):
        return OptInt.is_none(self.e)

    @property
    def val(self):
        return OptInt.val(self.e)


_list_sorts = {}


class ListK(Kind):
    def __init__(self, elem):
        self.elem = elem
        key = repr(elem)
        if key not in _list_sorts:
            dt = z3.Datatype("List_" + "".join(c if c.isalnum() else "_" for c in key))
            dt.declare("mk", ("len", z3.IntSort()), ("arr", z3.ArraySort(z3.IntSort(), elem.sort())))
            _list_sorts[key] = dt.create()
        self.dt = _list_sorts[key]

    def sort(self):
        return self.dt

    def wrap(self, e):
        return SeqV(self.dt.len(e), self.dt.arr(e), self.elem)

    def unwrap(self, v):
        if isinstance(v, SeqV):
            return self.dt.mk(to_z3(v.len, IntK), v.arr)
        raise VCError(f"cannot store {v!r} as {self!r}")

    def fresh(self, prefix):
        n = fresh(prefix + "_len", z3.IntSort())
        a = fresh(prefix, z3.ArraySort(z3.IntSort(), self.elem.sort()))
        return SeqV(n, a, self.elem)

    def __repr__(self):
        return f"list[{self.elem!r}]"


class SetK(Kind):
    name = "set[int]"
    universe = None   # finite mode: fresh sets only contain members of [0, universe)

    def sort(self):
        return z3.ArraySort(z3.IntSort(), z3.BoolSort())

    def fresh(self, prefix):
        raw = fresh(prefix, self.sort())
        if SetK.universe is not None:
            x = z3.Int("x!u")
            return SetV(z3.Lambda([x], z3.And(x >= 0, x < SetK.universe, z3.Select(raw, x))))
        return SetV(raw)

    def __repr__(self):
        return self.name


SetIntK = SetK()


class LabV:
    """integer label array indexed by row (one quantum-number component; the operations are componentwise)"""

    def __init__(self, arr):
        self.arr = arr

    def at(self, r):
        return z3.Select(self.arr, to_z3(r, IntK))


class LabKind(Kind):
    name = "lab"

    def sort(self):
        return z3.ArraySort(z3.IntSort(), z3.IntSort())

    def wrap(self, e):
        return LabV(e)

    def unwrap(self, v):
        if isinstance(v, LabV):
            return v.arr
        raise VCError(f"cannot store {v!r} as a label array")

    def fresh(self, prefix):
        return LabV(fresh(prefix, self.sort()))

    def __repr__(self):
        return self.name


LabK = LabKind()


class SymKind(Kind):
    """opaque symbolic constant (e.g. a directory name): only its identity matters"""
    name = "sym"

    def fresh(self, prefix):
        return ConstV(prefix)

    def __repr__(self):
        return self.name


SymK = SymKind()


class SeqV:
    """immutable snapshot of a list / 1-D array: length + z3 array of element sort"""

    def __init__(self, length, arr, elem):
        self.len, self.arr, self.elem = length, arr, elem

    def at(self, i):
        return self.elem.wrap(z3.Select(self.arr, to_z3(i, IntK)))

    @property
    def kind(self):
        return ListK(self.elem)


class SetV:
    def __init__(self, mem):
        self.mem = mem

    def has(self, x):
        return z3.Select(self.mem, to_z3(x, IntK))

    kind = SetIntK


class RangeV:
    def __init__(self, start, stop, step):
        self.start, self.stop, self.step = start, stop, step  # step is a concrete python int (+1/-1)


class TupleV:
    def __init__(self, items):
        self.items = list(items)


class Ref:
    """reference to a mutable heap object (list / set / record)"""

    def __init__(self, addr):
        self.addr = addr


class RecV:
    """record (object with named fields); fields hold values (scalars, Ref, ...)"""

    def __init__(self, fields, cls=None):
        self.fields = dict(fields)
        self.cls = cls


class RecK(Kind):
    def __init__(self, fields, cls=None):
        self.fields, self.cls = fields, cls  # name -> Kind

    def __repr__(self):
        return f"rec{self.cls or ''}"


class FuncV:
    def __init__(self, node, closure_env, qual):
        self.node, self.closure_env, self.qual = node, closure_env, qual


class LambdaV:
    def __init__(self, node, env):
        self.node, self.env = node, env


class PathV:
    """file-system path as a structural key (different expressions = different files; see contracts/tdmps.py)"""

    def __init__(self, key):
        self.key = key


class ConstV:
    """opaque concrete python constant (enum member, module, ...) compared by identity/equality"""

    def __init__(self, obj):
        self.obj = obj


def is_z3(x):
    return isinstance(x, z3.ExprRef)


def to_z3(v, kind=None):
    if is_z3(v):
        if kind is RealK and v.sort() == z3.IntSort():
            return z3.ToReal(v)
        return v
    if isinstance(v, bool):
        return z3.BoolVal(v)
    if isinstance(v, int):
        return z3.RealVal(v) if kind is RealK else z3.IntVal(v)
    if isinstance(v, float):
        return z3.RealVal(repr(v))
    if isinstance(v, str):
        return str_const(v)
    if isinstance(v, OptV):
        return v.e
    if v is None and kind is OptIntK:
        return OptInt.none
    raise VCError(f"cannot convert {v!r} to a solver term")


def to_bool(v):
    if isinstance(v, bool):
        return z3.BoolVal(v)
    if is_z3(v):
        if z3.is_bool(v):
            return v
        if v.sort() == z3.IntSort() or v.sort() == z3.RealSort():
            return v != 0
    if v is None:
        return z3.BoolVal(False)
    if isinstance(v, OptV):
        # Python truthiness of Optional[int]: None and 0 are both false
        return z3.And(z3.Not(v.is_none), v.val != 0)
    if isinstance(v, SeqV):
        return to_z3(v.len) != 0
    if isinstance(v, int):
        return z3.BoolVal(v != 0)
    raise VCError(f"truth value of {v!r}")


def kind_of(v):
    if isinstance(v, bool):
        return BoolK
    if isinstance(v, int):
        return IntK
    if isinstance(v, float):
        return RealK
    if isinstance(v, str):
        return StrK
    if is_z3(v):
        s = v.sort()
        if s == z3.IntSort():
            return IntK
        if s == z3.RealSort():
            return RealK
        if s == z3.BoolSort():
            return BoolK
        if s == Str:
            return StrK
        if s == OptInt:
            return OptIntK
    if isinstance(v, OptV) or v is None:
        return OptIntK
    if isinstance(v, SeqV):
        return ListK(v.elem)
    if isinstance(v, SetV):
        return SetIntK
    if isinstance(v, LabV):
        return LabK
    raise VCError(f"no kind for {v!r}")


# ----------------------------------------------------------------------------------------------
# state


class State:
    def __init__(self):
        self.env = {}        # name -> value
        self.heap = {}       # addr -> SeqV | SetV | RecV
        self.pc = []         # z3 Bool assumptions
        self.parent = None   # enclosing State env for closures is handled by Env chain
        self.ghost = {}      # ghost names (loop indices, old_ values)
        self.trace = []      # textual branch decisions (for messages)
        self.fs = {}         # ghost file system: path key -> z3 Int (0 absent, 1 partial/unreadable, 2+g complete, generation g)

    def fork(self):
        s = State()
        s.env = self.env.copy()
        s.heap = self.heap.copy()
        s.pc = list(self.pc)
        s.ghost = self.ghost.copy()
        s.trace = list(self.trace)
        s.fs = self.fs.copy()
        return s

    def assume(self, f):
        f = to_bool(f)
        if z3.is_true(f):
            return
        self.pc.append(f)

    _addr = itertools.count(1)

    def alloc(self, obj):
        a = next(State._addr)
        self.heap[a] = obj
        return Ref(a)

    def deref(self, v):
        if isinstance(v, Ref):
            return self.heap[v.addr]
        return v


class Obligation:
    def __init__(self, oid, fn, kind, pc, goal, lineno, note=""):
        self.oid, self.fn, self.kind, self.pc, self.goal = oid, fn, kind, list(pc), goal
        self.lineno, self.note = lineno, note
        self.status = None
        self.backend = ""
        self.time_s = 0.0
        self.model = None
        self.state = None


# ----------------------------------------------------------------------------------------------
# contracts (sidecar)


class Contract:
    """Sidecar contract of one function.

    params    : {name: kind-string}   kinds: int, real, bool, str, opt[int], list[K], set[int], rec:<RecName>
    requires  : [python expr strings]
    ensures   : [(id, python expr string)]   may use `result`, `old_<param>`
    invariants: {loop key: [(id, expr)]}  loop key = "<kind>#<ordinal>" in source order, e.g. "while#0", "for#1"
    abstract  : {stmt key: {"havoc": {name: kind}, "assume": [expr]}}  top-level statements replaced by an assumed contract
    modifies  : [param names whose heap object may change]
    asserts   : "prove" | "assume"
    """

    def __init__(self, qualname, params, requires=(), ensures=(), invariants=None, abstract=None,
                 modifies=(), asserts="prove", ghost=None, bounds="prove", records=None, result=None,
                 decreases=None, lemmas=None, notes="", raises_ok=False, inline=(), returns_ref=None, consts=(),
                 defaults=None):
        self.qualname, self.params = qualname, params
        self.requires, self.ensures = list(requires), list(ensures)
        self.invariants = invariants or {}
        self.abstract = abstract or {}
        self.modifies = list(modifies)
        self.asserts = asserts
        self.ghost = ghost or {}
        self.bounds = bounds
        self.records = records or {}
        self.result = result
        self.decreases = decreases or {}
        self.lemmas = lemmas or []
        self.notes = notes
        self.raises_ok = raises_ok
        self.inline = inline
        self.consts = set(consts)
        self.defaults = defaults or {}
        self.ufuncs = {}
        self.crash_invariant = None   # spec evaluated at every crash point of the ghost file system
        self.local_kinds = {}     # declared kinds of locals initialised with an empty literal, e.g. {"ret": "list[list[int]]"}


def parse_kind(s, records=None):
    s = s.strip()
    if s == "int":
        return IntK
    if s in ("real", "float"):
        return RealK
    if s == "bool":
        return BoolK
    if s == "str":
        return StrK
    if s == "opt[int]":
        return OptIntK
    if s == "set[int]":
        return SetIntK
    if s == "lab":
        return LabK
    if s == "sym":
        return SymK
    if s.startswith("list[") and s.endswith("]"):
        return ListK(parse_kind(s[5:-1], records))
    if s.startswith("rec:"):
        name = s[4:]
        spec = (records or {})[name]
        return RecK({k: parse_kind(v, records) if isinstance(v, str) else v for k, v in spec.items()}, name)
    raise VCError(f"unknown kind {s}")


def fresh_value(st, kind, prefix):
    """allocate a fresh symbolic value of `kind`; mutable kinds live on the heap"""
    if isinstance(kind, ScalarK) or isinstance(kind, OptK) or isinstance(kind, LabKind) or isinstance(kind, SymKind):
        return kind.fresh(prefix)
    if isinstance(kind, ListK):
        v = kind.fresh(prefix)
        st.assume(v.len >= 0)
        return st.alloc(v)
    if isinstance(kind, SetK):
        return st.alloc(kind.fresh(prefix))
    if isinstance(kind, RecK):
        rec = RecV({f: fresh_value(st, k, f"{prefix}.{f}") for f, k in kind.fields.items()}, kind.cls)
        return st.alloc(rec)
    raise VCError(f"fresh_value: {kind!r}")


# ----------------------------------------------------------------------------------------------
# source access


class SourceIndex:
    """parses repository modules on demand and finds functions by qualified name"""

    def __init__(self, repo_root):
        self.root = repo_root
        self.cache = {}

    def module(self, relpath):
        if relpath not in self.cache:
            import os
            with open(os.path.join(self.root, relpath)) as fh:
                src = fh.read()
            self.cache[relpath] = (ast.parse(src), src)
        return self.cache[relpath]

    def find(self, relpath, qualname):
        tree, _ = self.module(relpath)
        node = tree
        for part in qualname.split("."):
            found = None
            for ch in ast.iter_child_nodes(node):
                if isinstance(ch, (ast.FunctionDef, ast.ClassDef)) and ch.name == part:
                    found = ch
            if found is None:
                # search inside function bodies (nested defs)
                for ch in ast.walk(node):
                    if isinstance(ch, (ast.FunctionDef, ast.ClassDef)) and ch.name == part and ch is not node:
                        found = ch
                        break
            if found is None:
                raise VCError(f"{qualname} not found in {relpath}")
            node = found
        return node


DROPPED = ["logger.* calls", "docstrings", "type annotations", "del of locals", "f-strings in log/exception messages"]


# ----------------------------------------------------------------------------------------------
# the symbolic executor


class Outcome:
    def __init__(self, kind, st, val=None):
        self.kind, self.st, self.val = kind, st, val  # kind: normal | return | break | continue | raise


class Executor:
    def __init__(self, contract, fn_node, relpath, contracts=None, timeout_ms=20000):
        self.c = contract
        self.fn = fn_node
        self.relpath = relpath
        self.contracts = contracts or {}     # callee name -> Contract (call by contract)
        self.obligations = []
        self.timeout_ms = timeout_ms
        self.loop_counter = {}
        self.stmt_counter = {}
        self.records = contract.records
        self.covers = []
        self.stale = []
        self._loop_keys = {}
        self._assign_loop_keys()
        self.n_paths = 0
        self.feas_cache = {}
        self.inline_nodes = {}     # method name -> FunctionDef inlined at call sites (contract.inline)
        self.entry_fs = {}         # ghost file system at function entry
        self.crash_ordinal = 0
        self.bound = None          # finite-universe mode for refutation (see forall_idx)
        self.restrictions = []     # search restrictions added in finite mode (lengths <= bound, set elements in [0, bound))

    # ---- loop / statement keys in source order
    def _assign_loop_keys(self):
        counts = {}

        def visit(node):
            for ch in ast.iter_child_nodes(node):
                if isinstance(ch, (ast.For, ast.While)):
                    k = "for" if isinstance(ch, ast.For) else "while"
                    n = counts.get(k, 0)
                    counts[k] = n + 1
                    self._loop_keys[id(ch)] = f"{k}#{n}"
                visit(ch)
        visit(self.fn)
        self.loop_keys_present = set(self._loop_keys.values())

    # ---- obligations
    def emit(self, oid, kind, st, goal, node, note=""):
        goal = to_bool(goal)
        ob = Obligation(oid, self.c.qualname, kind, st.pc, goal, getattr(node, "lineno", 0), note)
        ob.state = st
        self.obligations.append(ob)
        return ob

    def feasible(self, st):
        s = z3.Solver()
        s.set("timeout", 400)
        for f in st.pc:
            s.add(f)
        add_distinct(s)    # distinct string literals: `algo == 'a'` excludes `algo == 'b'`
        r = s.check()
        return r != z3.unsat

    # ---- entry
    def run(self):
        st = State()
        c = self.c
        args = self.fn.args
        names = [a.arg for a in args.args]
        for n in names:
            if n not in c.params:
                raise VCError(f"parameter {n} of {c.qualname} has no kind in the sidecar contract (stale contract)")
        for n in names:
            k = parse_kind(c.params[n], self.records)
            v = fresh_value(st, k, n)
            st.env[n] = v
        for n, kstr in c.ghost.items():
            st.env[n] = fresh_value(st, parse_kind(kstr, self.records), n)
        # snapshot old values
        for n in list(st.env):
            st.ghost["old_" + n] = self.snapshot(st, st.env[n])
        self.entry_state = st
        for r in c.requires:
            st.assume(self.eval_spec(r, st))
        # vacuity: requires satisfiable
        self.covers.append(("requires-satisfiable", list(st.pc)))
        outs = self.exec_block(self.fn.body, st, top=True)
        for o in outs:
            if o.kind in ("normal", "return"):
                self.n_paths += 1
                val = o.val if o.kind == "return" else None
                self.check_post(o.st, val)
            elif o.kind == "raise":
                pass
            else:
                raise VCError(f"{o.kind} outside loop")
        return self.obligations

    def snapshot(self, st, v):
        """deep immutable snapshot for old_ values"""
        if isinstance(v, Ref):
            obj = st.heap[v.addr]
            if isinstance(obj, RecV):
                return RecV({k: self.snapshot(st, x) for k, x in obj.fields.items()}, obj.cls)
            return obj
        return v

    def check_post(self, st, val):
        env_extra = {"result": val}
        for oid, e in self.c.ensures:
            g = self.eval_spec(e, st, extra=env_extra)
            self.emit(f"post:{self.c.qualname}:{oid}", "post", st, g, self.fn)

    # ---- spec evaluation: python expression string -> z3
    def eval_spec(self, expr, st, extra=None):
        node = ast.parse(expr, mode="eval").body
        sub = st.fork()
        sub.pc = st.pc  # share (spec evaluation adds no assumptions except definitional axioms)
        sub.fs = st.fs  # share: ghost files first mentioned in a spec are the same files the code sees
        sub.env.update(st.ghost)
        if extra:
            sub.env.update(extra)
        sub.in_spec = True
        v = self.eval(node, sub)
        return to_bool(v)

    # ---- statements
    def exec_block(self, stmts, st, top=False):
        outs = [Outcome("normal", st)]
        for i, s in enumerate(stmts):
            nxt = []
            for o in outs:
                if o.kind != "normal":
                    nxt.append(o)
                    continue
                nxt.extend(self.exec_stmt(s, o.st, top=top))
            outs = nxt
            if len(outs) > 4000:
                raise VCError("path explosion (> 4000 live paths)")
        return outs

    def stmt_key(self, s):
        return type(s).__name__

    def exec_stmt(self, s, st, top=False):
        if top:
            # abstraction of unmodelled top-level statements, keyed "<Type>#<ordinal among top-level stmts of that type>"
            t = type(s).__name__
            n = self.stmt_counter.get(("top", id(s)))
            if n is None:
                n = sum(1 for x in self.fn.body[: self.fn.body.index(s)] if type(x).__name__ == t)
                self.stmt_counter[("top", id(s))] = n
            key = f"{t}#{n}"
            # statements may also be selected by content: "If@<text occurring in the test>" (robust against inserted statements)
            if key not in self.c.abstract and isinstance(s, ast.If):
                for k2 in self.c.abstract:
                    if k2.startswith("If@") and k2[3:] in ast.unparse(s.test):
                        key = k2
            # ... or by their exact text: "Stmt@<ast.unparse of the statement>" - the assumed summary applies to this very statement only;
            # any edit of it leaves the statement to the executor (usually: outside the subset -> contract stale, undecided)
            if key not in self.c.abstract:
                for k2 in self.c.abstract:
                    if k2.startswith("Stmt@") and k2[5:] == ast.unparse(s):
                        key = k2
            if key in self.c.abstract:
                ab = self.c.abstract[key]
                for name, kstr in ab.get("havoc", {}).items():
                    st.env[name] = fresh_value(st, parse_kind(kstr, self.records), name)
                for e in ab.get("assume", []):
                    st.assume(self.eval_spec(e, st))
                return [Outcome("normal", st)]
        m = getattr(self, "s_" + type(s).__name__, None)
        if m is None:
            raise VCError(f"statement {type(s).__name__} at line {s.lineno} outside subset")
        return m(s, st)

    def s_Pass(self, s, st):
        return [Outcome("normal", st)]

    def s_Expr(self, s, st):
        if isinstance(s.value, ast.Constant):
            return [Outcome("normal", st)]  # docstring
        if self.is_logger_call(s.value):
            return [Outcome("normal", st)]
        outs = []
        for st2, _ in self.eval_fork(s.value, st):
            outs.append(Outcome("normal", st2))
        return outs

    def is_logger_call(self, e):
        return (isinstance(e, ast.Call) and isinstance(e.func, ast.Attribute)
                and isinstance(e.func.value, ast.Name) and e.func.value.id == "logger")

    def s_FunctionDef(self, s, st):
        st.env[s.name] = FuncV(s, None, s.name)
        return [Outcome("normal", st)]

    def s_Return(self, s, st):
        if s.value is None:
            return [Outcome("return", st, None)]
        return [Outcome("return", st2, v) for st2, v in self.eval_fork(s.value, st)]

    def s_Raise(self, s, st):
        return [Outcome("raise", st)]

    def s_Break(self, s, st):
        return [Outcome("break", st)]

    def s_Continue(self, s, st):
        return [Outcome("continue", st)]

    def s_Delete(self, s, st):
        return [Outcome("normal", st)]

    def s_Assert(self, s, st):
        outs = []
        for st2, v in self.eval_fork(s.test, st):
            cond = to_bool(v)
            if z3.is_false(z3.simplify(cond)):
                # `assert False`: the path must be unreachable (obligation), and it ends here
                if self.c.asserts == "prove":
                    self.emit(f"assert:{self.c.qualname}:L{s.lineno - self.fn.lineno}:unreachable", "assert", st2, z3.BoolVal(False), s,
                              note="assert False is unreachable")
                outs.append(Outcome("raise", st2))
                continue
            if self.c.asserts == "prove":
                self.emit(f"assert:{self.c.qualname}:L{s.lineno - self.fn.lineno}", "assert", st2, cond, s,
                          note=ast.unparse(s.test))
            st2.assume(cond)
            outs.append(Outcome("normal", st2))
        return outs

    def s_Assign(self, s, st):
        outs = []
        for st2, v in self.eval_fork(s.value, st):
            for t in s.targets:
                self.assign(t, v, st2)
            outs.append(Outcome("normal", st2))
        return outs

    def s_AnnAssign(self, s, st):
        if s.value is None:
            return [Outcome("normal", st)]
        outs = []
        for st2, v in self.eval_fork(s.value, st):
            self.assign(s.target, v, st2)
            outs.append(Outcome("normal", st2))
        return outs

    def s_AugAssign(self, s, st):
        cur = ast.BinOp(left=self._load(s.target), op=s.op, right=s.value)
        ast.copy_location(cur, s)
        ast.fix_missing_locations(cur)
        outs = []
        for st2, v in self.eval_fork(cur, st):
            self.assign(s.target, v, st2)
            outs.append(Outcome("normal", st2))
        return outs

    def _load(self, t):
        t2 = ast.parse(ast.unparse(t), mode="eval").body
        return t2

    def assign(self, t, v, st):
        if isinstance(t, ast.Name):
            if t.id in self.c.local_kinds and isinstance(v, SeqV):
                k = parse_kind(self.c.local_kinds[t.id], self.records)
                n0 = z3.simplify(to_z3(v.len))
                if isinstance(k, ListK) and z3.is_int_value(n0) and n0.as_long() == 0 and repr(k.elem) != repr(v.elem):
                    v = SeqV(z3.IntVal(0), z3.K(z3.IntSort(), self.default_of(k.elem)), k.elem)
            # lists assigned from an immutable snapshot become heap objects (python lists are mutable)
            if isinstance(v, (SeqV, SetV)):
                v = st.alloc(v)
            st.env[t.id] = v
        elif isinstance(t, ast.Tuple):
            if isinstance(v, TupleV):
                items = v.items
            else:
                raise VCError("tuple unpack of non-tuple")
            if len(items) != len(t.elts):
                raise VCError("tuple arity")
            for tt, vv in zip(t.elts, items):
                self.assign(tt, vv, st)
        elif isinstance(t, ast.Subscript):
            base = self.eval(t.value, st)
            if not isinstance(base, Ref):
                raise VCError(f"subscript store into non-heap value at line {t.lineno}")
            obj = st.heap[base.addr]
            if isinstance(obj, SeqV):
                idx = self.eval(t.slice, st)
                idx = self.norm_index(idx, obj, st, t, store=True)
                st.heap[base.addr] = SeqV(obj.len, z3.Store(obj.arr, idx, obj.elem.unwrap(self.coerce(v, obj.elem, st))), obj.elem)
            else:
                raise VCError("subscript store into unsupported object")
        elif isinstance(t, ast.Attribute):
            base = self.eval(t.value, st)
            if not isinstance(base, Ref) or not isinstance(st.heap[base.addr], RecV):
                raise VCError(f"attribute store on non-record at line {t.lineno}")
            rec = st.heap[base.addr]
            if t.attr not in rec.fields:
                raise VCError(f"attribute {t.attr} is not a declared field of record {rec.cls}")
            if isinstance(v, (SeqV, SetV)):
                v = st.alloc(v)
            nf = dict(rec.fields)
            nf[t.attr] = v
            st.heap[base.addr] = RecV(nf, rec.cls)
        else:
            raise VCError(f"assignment target {type(t).__name__}")

    def coerce(self, v, kind, st):
        if isinstance(kind, ListK):
            v = st.deref(v)
            return v
        if kind is OptIntK:
            if v is None or isinstance(v, OptV):
                return v
            return OptV(OptInt.some(to_z3(v, IntK)))
        return v

    def as_int(self, v, st, node):
        """Optional[int] used as an int: in code this needs `v is not None` (obligation); in specs it is val(v)"""
        if isinstance(v, OptV):
            if not getattr(st, "in_spec", False):
                self.emit(f"type:{self.c.qualname}:L{getattr(node, 'lineno', self.fn.lineno) - self.fn.lineno}:not-None", "type", st,
                          z3.Not(v.is_none), node)
                st.assume(z3.Not(v.is_none))
            return v.val
        if v is None:
            raise VCError("None used as an integer")
        return v

    def norm_index(self, idx, seq, st, node, store=False):
        """index into a sequence: proves 0 <= idx < len (python's negative indices: constant -k handled as len-k)"""
        idx = self.as_int(idx, st, node)
        if isinstance(idx, int) and idx < 0:
            idx = to_z3(seq.len) + idx
        idx = to_z3(idx, IntK)
        if not getattr(st, "in_spec", False) and self.c.bounds == "prove":
            self.emit(f"bounds:{self.c.qualname}:L{node.lineno - self.fn.lineno}:{ast.unparse(node)[:40]}", "bounds", st,
                      z3.And(idx >= 0, idx < to_z3(seq.len)), node)
            st.assume(z3.And(idx >= 0, idx < to_z3(seq.len)))
        return idx

    def _effectful(self, e):
        """does evaluating `e` call a function whose contract modifies an argument?"""
        for n in ast.walk(e):
            if isinstance(n, ast.Call):
                name = n.func.id if isinstance(n.func, ast.Name) else (n.func.attr if isinstance(n.func, ast.Attribute) else None)
                cc = self.contracts.get(name) if name else None
                if cc is not None and cc.modifies:
                    return True
        return False

    def s_If(self, s, st):
        # `if A or B:` / `if A and B:` where a later operand has side effects (call by contract with a modifies clause): evaluate the
        # operands one after the other, each in the state its predecessors left, exactly as the short-circuit does
        if isinstance(s.test, ast.BoolOp) and any(self._effectful(x) for x in s.test.values[1:]):
            is_or = isinstance(s.test.op, ast.Or)
            outs, cur = [], st
            for i, x in enumerate(s.test.values):
                v = z3.simplify(to_bool(self.eval(x, cur)))
                last = i == len(s.test.values) - 1
                decided = cur.fork()       # operand decides the test: true in `or`, false in `and`
                decided.assume(v if is_or else z3.Not(v))
                decided.trace.append(f"L{s.lineno}:op{i}:{'T' if is_or else 'F'}")
                if not z3.is_false(v if is_or else z3.Not(v)) and self.feasible(decided):
                    outs.extend(self.exec_block(s.body if is_or else s.orelse, decided))
                cur.assume(z3.Not(v) if is_or else v)
                if not self.feasible(cur):
                    return outs
                if last:
                    outs.extend(self.exec_block(s.orelse if is_or else s.body, cur))
            return outs
        outs = []
        for st2, v in self.eval_fork(s.test, st):
            cond = to_bool(v)
            cond = z3.simplify(cond)
            if z3.is_true(cond):
                outs.extend(self.exec_block(s.body, st2))
                continue
            if z3.is_false(cond):
                outs.extend(self.exec_block(s.orelse, st2))
                continue
            a = st2.fork()
            a.assume(cond)
            a.trace.append(f"L{s.lineno}:T")
            b = st2
            b.assume(z3.Not(cond))
            b.trace.append(f"L{s.lineno}:F")
            if self.feasible(a):
                outs.extend(self.exec_block(s.body, a))
            if self.feasible(b):
                outs.extend(self.exec_block(s.orelse, b))
        return outs

    # ---- loops
    def write_set(self, body):
        """syntactic write set: names assigned, and names whose referent is mutated"""
        names, mutated = set(), set()

        def root_name(e):
            while isinstance(e, (ast.Subscript, ast.Attribute)):
                e = e.value
            return e.id if isinstance(e, ast.Name) else None

        for n in ast.walk(ast.Module(body=list(body), type_ignores=[])):
            if isinstance(n, (ast.Assign, ast.AugAssign, ast.AnnAssign)):
                targets = n.targets if isinstance(n, ast.Assign) else [n.target]
                for t in targets:
                    for tt in ast.walk(t):
                        if isinstance(tt, ast.Name) and isinstance(tt.ctx, ast.Store):
                            names.add(tt.id)
                    if isinstance(t, (ast.Subscript, ast.Attribute)):
                        r = root_name(t)
                        if r:
                            mutated.add((r, ast.unparse(t.value) if isinstance(t, ast.Subscript) else ast.unparse(t.value)))
            elif isinstance(n, ast.For):
                for tt in ast.walk(n.target):
                    if isinstance(tt, ast.Name):
                        names.add(tt.id)
            elif isinstance(n, ast.Call) and isinstance(n.func, ast.Attribute):
                if n.func.attr in ("add", "pop", "append", "remove", "discard", "extend", "insert", "clear", "update", "sort", "reverse"):
                    r = root_name(n.func.value)
                    if r:
                        mutated.add((r, ast.unparse(n.func.value)))
                else:
                    # method call on self / objects with a contract that modifies
                    cname = n.func.attr
                    cc = self.contracts.get(cname)
                    if cc is not None and cc.modifies:
                        r = root_name(n.func.value)
                        if r:
                            mutated.add((r, "<contract:%s>" % cname))
            elif isinstance(n, ast.Call) and isinstance(n.func, ast.Name):
                cc = self.contracts.get(n.func.id)
                if cc is not None and cc.modifies:
                    pnames = list(cc.params)
                    for i, a in enumerate(n.args):
                        if i < len(pnames) and pnames[i] in cc.modifies:
                            r = root_name(a)
                            if r:
                                mutated.add((r, "<contract:%s>" % n.func.id))
        return names, mutated

    def havoc_ref(self, st, ref, prefix):
        obj = st.heap[ref.addr]
        if isinstance(obj, SeqV):
            nv = ListK(obj.elem).fresh(prefix)
            st.assume(nv.len >= 0)
            st.heap[ref.addr] = nv
        elif isinstance(obj, SetV):
            st.heap[ref.addr] = SetIntK.fresh(prefix)
        elif isinstance(obj, RecV):
            nf = {}
            for f, x in obj.fields.items():
                if isinstance(x, Ref):
                    self.havoc_ref(st, x, f"{prefix}.{f}")
                    nf[f] = x
                elif is_z3(x) or isinstance(x, (int, bool, float)):
                    nf[f] = kind_of(x).fresh(f"{prefix}.{f}")
                elif isinstance(x, OptV) or x is None:
                    nf[f] = OptIntK.fresh(f"{prefix}.{f}")
                elif isinstance(x, LabV):
                    nf[f] = LabK.fresh(f"{prefix}.{f}")
                else:
                    nf[f] = x
            st.heap[ref.addr] = RecV(nf, obj.cls)

    def havoc(self, st, names, mutated, tag):
        for r, path in mutated:
            if r in st.env and isinstance(st.env[r], Ref):
                target = st.env[r]
                # path like self.qn : havoc only that field's object when resolvable
                try:
                    node = ast.parse(path, mode="eval").body if not path.startswith("<") else None
                    if node is not None:
                        v = self.eval(node, st)
                        if isinstance(v, Ref):
                            target = v
                except VCError:
                    pass
                self.havoc_ref(st, target, f"{r}@{tag}")
        for n in names:
            if n in st.env:
                v = st.env[n]
                if isinstance(v, Ref):
                    # rebinding of a name holding a reference inside the loop: new object
                    obj = st.heap[v.addr]
                    nr = st.alloc(obj)
                    self.havoc_ref(st, nr, f"{n}@{tag}")
                    st.env[n] = nr
                elif is_z3(v) or isinstance(v, (int, bool, float)):
                    st.env[n] = kind_of(v).fresh(f"{n}@{tag}")
                elif isinstance(v, OptV) or v is None:
                    st.env[n] = OptIntK.fresh(f"{n}@{tag}")
                # other concrete values (functions, tuples) keep their binding; flagged if reassigned differently
                elif isinstance(v, (TupleV,)):
                    raise VCError(f"loop reassigns tuple variable {n}")

    def invariants_for(self, key):
        return self.c.invariants.get(key, [])

    def s_While(self, s, st):
        key = self._loop_keys[id(s)]
        invs = self.invariants_for(key)
        q = self.c.qualname
        # init
        for iid, e in invs:
            self.emit(f"inv-init:{q}:{key}:{iid}", "inv-init", st, self.eval_spec(e, st), s)
        names, mutated = self.write_set(s.body)
        h = st.fork()
        self.havoc(h, names, mutated, key)
        for iid, e in invs:
            h.assume(self.eval_spec(e, h))
        outs = []
        # body
        b = h.fork()
        exits = []
        for stg, g in self.eval_fork(s.test, b):
            stb = stg.fork()
            stb.assume(to_bool(g))
            self.covers.append((f"loop-body-reachable:{key}", list(stb.pc)))
            dec0 = None
            if key in self.c.decreases:
                dec0 = self.eval(ast.parse(self.c.decreases[key], mode="eval").body, self._spec_state(stb))
            for o in self.exec_block(s.body, stb):
                if o.kind in ("normal", "continue"):
                    for iid, e in invs:
                        self.emit(f"inv-step:{q}:{key}:{iid}", "inv-step", o.st, self.eval_spec(e, o.st), s)
                    if dec0 is not None:
                        dec1 = self.eval(ast.parse(self.c.decreases[key], mode="eval").body, self._spec_state(o.st))
                        self.emit(f"decreases:{q}:{key}", "decreases", o.st,
                                  z3.And(to_z3(dec0) >= 0, to_z3(dec1) < to_z3(dec0)), s)
                elif o.kind == "break":
                    exits.append(Outcome("normal", o.st))
                else:
                    outs.append(o)
        # exit
        for stg, g in self.eval_fork(s.test, h):
            stg.assume(z3.Not(to_bool(g)))
            if s.orelse:
                outs.extend(self.exec_block(s.orelse, stg))
            else:
                outs.append(Outcome("normal", stg))
        outs.extend(exits)
        return outs

    def _spec_state(self, st):
        sub = st.fork()
        sub.env.update(st.ghost)
        sub.in_spec = True
        return sub

    def s_For(self, s, st):
        key = self._loop_keys[id(s)]
        invs = self.invariants_for(key)
        q = self.c.qualname
        outs_all = []
        # `for i, x in enumerate(seq)`: iterate over seq, the target receives the pair (k, seq[k])
        is_enum = (isinstance(s.iter, ast.Call) and isinstance(s.iter.func, ast.Name) and s.iter.func.id == "enumerate" and len(s.iter.args) == 1
                   and not s.iter.keywords and "enumerate" not in st.env)
        for st1, it in (self.eval_fork(s.iter.args[0], st) if is_enum else self.eval_fork(s.iter, st)):
            it = st1.deref(it)
            # ghost index name: k_<target> for simple targets, else k_<loop ordinal>
            gname = "k_" + (s.target.id if isinstance(s.target, ast.Name) else key.replace("#", ""))
            if is_enum:
                if not isinstance(it, SeqV):
                    raise VCError(f"enumerate over {type(it).__name__} at line {s.lineno}")
                n_iter = to_z3(it.len)
                elem = lambda k, it=it: TupleV([k, it.at(k)])
            elif isinstance(it, RangeV):
                n_iter = self.range_len(it)
                elem = lambda k, it=it: to_z3(it.start) + k * it.step
            elif isinstance(it, SeqV):
                n_iter = to_z3(it.len)
                elem = lambda k, it=it: it.at(k)
            elif isinstance(it, TupleV) and isinstance(it.items, list) and getattr(it, "zipped", None):
                raise VCError("zip iteration not supported here")
            else:
                raise VCError(f"for-loop over {type(it).__name__} at line {s.lineno}")
            # concrete small trip count & no invariants -> unroll
            n_simpl = z3.simplify(n_iter) if is_z3(n_iter) else n_iter
            if not invs and z3.is_int_value(n_simpl) and n_simpl.as_long() <= 8:
                outs = [Outcome("normal", st1)]
                for k in range(n_simpl.as_long()):
                    nxt = []
                    for o in outs:
                        if o.kind != "normal":
                            nxt.append(o)
                            continue
                        self.assign(s.target, elem(z3.IntVal(k)), o.st)
                        for o2 in self.exec_block(s.body, o.st):
                            if o2.kind == "continue":
                                o2 = Outcome("normal", o2.st)
                            nxt.append(o2)
                    outs = nxt
                res = []
                for o in outs:
                    if o.kind == "break":
                        res.append(Outcome("normal", o.st))
                    else:
                        res.append(o)
                outs_all.extend(res)
                continue
            # init: invariant with ghost index 0
            st1.ghost[gname] = z3.IntVal(0)
            for iid, e in invs:
                self.emit(f"inv-init:{q}:{key}:{iid}", "inv-init", st1, self.eval_spec(e, st1), s)
            names, mutated = self.write_set(s.body)
            tnames = {tt.id for tt in ast.walk(s.target) if isinstance(tt, ast.Name)}
            h = st1.fork()
            self.havoc(h, names - tnames, mutated, key)
            k = fresh(gname, z3.IntSort())
            h.ghost[gname] = k
            h.assume(k >= 0)
            h.assume(k <= n_iter)
            for iid, e in invs:
                h.assume(self.eval_spec(e, h))
            # body
            b = h.fork()
            b.assume(k < n_iter)
            self.assign(s.target, elem(k), b)
            self.covers.append((f"loop-body-reachable:{key}", list(b.pc)))
            exits = []
            for o in self.exec_block(s.body, b):
                if o.kind in ("normal", "continue"):
                    o.st.ghost[gname] = k + 1
                    for iid, e in invs:
                        self.emit(f"inv-step:{q}:{key}:{iid}", "inv-step", o.st, self.eval_spec(e, o.st), s)
                elif o.kind == "break":
                    exits.append(Outcome("normal", o.st))
                else:
                    outs_all.append(o)
            # exit
            x = h
            x.assume(k == n_iter)
            # the loop variable keeps its last value; unbound if the loop did not run (use after loop is flagged)
            for tn in tnames:
                if tn in st1.env:
                    pass
                else:
                    x.env[tn] = UnboundAfterLoop(tn, n_iter, elem, k)
            if s.orelse:
                outs_all.extend(self.exec_block(s.orelse, x))
            else:
                outs_all.append(Outcome("normal", x))
            outs_all.extend(exits)
        return outs_all

    def range_len(self, r):
        start, stop = to_z3(r.start), to_z3(r.stop)
        if r.step == 1:
            return z3.If(stop > start, stop - start, z3.IntVal(0))
        if r.step == -1:
            return z3.If(start > stop, start - stop, z3.IntVal(0))
        raise VCError("range step other than +-1")

    # ---- expressions
    def eval_fork(self, e, st):
        """evaluate an expression; returns [(state, value)].  A statement-level call of an inlined function (nested def or
        a method listed in contract.inline) may have several exits: one (state, value) per exit."""
        if isinstance(e, ast.Call):
            fv, recv = self.inlinable(e, st)
            if fv is not None:
                return self.inline_call_multi(fv, e, st, recv)
        v = self.eval(e, st)
        return [(st, v)]

    def inlinable(self, e, st):
        f = e.func
        if isinstance(f, ast.Name) and isinstance(st.env.get(f.id), FuncV):
            return st.env[f.id], None
        if isinstance(f, ast.Attribute) and f.attr in self.inline_nodes:
            recv = self.eval(f.value, st)
            if isinstance(st.deref(recv), RecV):
                return FuncV(self.inline_nodes[f.attr], None, f.attr), recv
        return None, None

    def bind_args(self, node, e, st, recv):
        params = [a.arg for a in node.args.args]
        vals = {}
        pos = list(params)
        if recv is not None:
            vals[pos[0]] = recv
            pos = pos[1:]
        for pname, a in zip(pos, e.args):
            vals[pname] = self.eval(a, st)
        for kw in e.keywords:
            vals[kw.arg] = self.eval(kw.value, st)
        dfl = node.args.defaults
        for a, d in zip(node.args.args[len(node.args.args) - len(dfl):], dfl):
            if a.arg not in vals:
                vals[a.arg] = self.eval(d, st)
        missing = [p_ for p_ in params if p_ not in vals]
        if missing:
            raise VCError(f"inlined call of {node.name}: missing arguments {missing}")
        return vals

    def inline_call_multi(self, fv, e, st, recv):
        node = fv.node
        vals = self.bind_args(node, e, st, recv)
        saved = {p_: st.env.get(p_, _MISSING) for p_ in vals}
        st.env.update(vals)
        outs = self.exec_block(node.body, st)
        res = []
        for o in outs:
            if o.kind in ("return", "normal"):
                for p_, v in saved.items():
                    if v is _MISSING:
                        o.st.env.pop(p_, None)
                    else:
                        o.st.env[p_] = v
                res.append((o.st, o.val if o.kind == "return" else None))
            elif o.kind == "raise":
                pass
            else:
                raise VCError(f"{o.kind} escaping inlined function {node.name}")
        return res

    def eval(self, e, st):
        m = getattr(self, "e_" + type(e).__name__, None)
        if m is None:
            raise VCError(f"expression {type(e).__name__} at line {getattr(e, 'lineno', '?')} outside subset")
        return m(e, st)

    def e_Constant(self, e, st):
        v = e.value
        if isinstance(v, float):
            seg = None
            return z3.RealVal(repr(v))
        return v

    def e_Name(self, e, st):
        if e.id in st.env:
            v = st.env[e.id]
            if isinstance(v, UnboundAfterLoop):
                # reading a loop variable after a loop that may not have run
                self.emit(f"def:{self.c.qualname}:{e.id}_bound", "def", st, v.n_iter > 0, e,
                          note=f"`{e.id}` is read after a for-loop and is bound only if the loop ran")
                st.assume(v.n_iter > 0)
                val = v.elem(v.n_iter - 1)
                st.env[e.id] = val
                return val
            return v
        if e.id in ("True", "False", "None"):
            return {"True": True, "False": False, "None": None}[e.id]
        if e.id in BUILTINS or e.id in self.c.consts:
            return ConstV(e.id)
        raise VCError(f"unknown name {e.id} at line {getattr(e, 'lineno', '?')}")

    def e_Tuple(self, e, st):
        return TupleV([self.eval(x, st) for x in e.elts])

    def e_List(self, e, st):
        items = [self.eval(x, st) for x in e.elts]
        if not items:
            return SeqV(z3.IntVal(0), z3.K(z3.IntSort(), z3.IntVal(0)), IntK)
        k = kind_of(items[0]) if not isinstance(items[0], Ref) else st.heap[items[0].addr].kind
        if any(x is None for x in items) or isinstance(k, OptK):
            k = OptIntK
        arr = z3.K(z3.IntSort(), self.default_of(k))
        for i, x in enumerate(items):
            arr = z3.Store(arr, i, k.unwrap(self.coerce(st.deref(x), k, st)))
        return SeqV(z3.IntVal(len(items)), arr, k)

    def default_of(self, k):
        if k is IntK:
            return z3.IntVal(0)
        if k is RealK:
            return z3.RealVal(0)
        if k is BoolK:
            return z3.BoolVal(False)
        if k is OptIntK:
            return OptInt.none
        if isinstance(k, ListK):
            return k.dt.mk(z3.IntVal(0), z3.K(z3.IntSort(), self.default_of(k.elem)))
        return fresh("dflt", k.sort())

    def e_UnaryOp(self, e, st):
        v = self.eval(e.operand, st)
        if isinstance(e.op, ast.Not):
            if isinstance(v, bool):
                return not v
            return z3.Not(to_bool(v))
        if isinstance(e.op, ast.USub):
            if isinstance(v, (int, float)) and not isinstance(v, bool):
                return -v
            return -to_z3(v)
        if isinstance(e.op, ast.UAdd):
            return v
        raise VCError("unary op")

    def e_BoolOp(self, e, st):
        """short-circuit: obligations raised while evaluating a later operand are emitted under the guard of the earlier ones"""
        is_and = isinstance(e.op, ast.And)
        vals = []
        cur = st
        guards = set()
        for x in e.values:
            n0 = len(cur.pc)
            v = self.eval(x, cur)
            if cur is not st:
                # definitional facts (ghost files, counters ...) introduced while evaluating this operand are unconditional
                for f in cur.pc[n0:]:
                    st.pc.append(f)
            vals.append(v)
            if isinstance(v, bool):
                if v != is_and:       # False in `and` / True in `or`: the rest is not evaluated
                    break
                continue
            g = to_bool(v)
            nxt = cur.fork()
            nxt.pc = list(cur.pc)
            nxt.fs = cur.fs
            nxt.in_spec = getattr(cur, "in_spec", False)
            nxt.pc.append(g if is_and else z3.Not(g))
            cur = nxt
        if all(isinstance(v, bool) for v in vals):
            return all(vals) if is_and else any(vals)
        bs = [to_bool(v) for v in vals]
        return z3.And(*bs) if is_and else z3.Or(*bs)

    def e_IfExp(self, e, st):
        c = self.eval(e.test, st)
        if isinstance(c, bool):
            return self.eval(e.body if c else e.orelse, st)
        c = z3.simplify(to_bool(c))
        if z3.is_true(c):
            return self.eval(e.body, st)
        if z3.is_false(c):
            return self.eval(e.orelse, st)
        # each arm is evaluated under its guard, so that the safety obligations it generates (index in range, divisor positive, ...) are path-sensitive;
        # definitional facts recorded while evaluating an arm stay in the path condition as implications
        n0 = len(st.pc)
        st.pc.append(c)
        a = self.eval(e.body, st)
        extra_a = st.pc[n0 + 1:]
        del st.pc[n0:]
        st.pc.append(z3.Not(c))
        b = self.eval(e.orelse, st)
        extra_b = st.pc[n0 + 1:]
        del st.pc[n0:]
        st.pc.extend(z3.Implies(c, to_bool(x)) for x in extra_a)
        st.pc.extend(z3.Implies(z3.Not(c), to_bool(x)) for x in extra_b)
        if isinstance(a, OptV) or isinstance(b, OptV) or a is None or b is None:
            return OptV(z3.If(c, OptIntK.unwrap(a), OptIntK.unwrap(b)))
        ka = kind_of(a)
        kb = kind_of(b)
        k = RealK if (ka is RealK or kb is RealK) else ka
        return z3.If(c, to_z3(a, k), to_z3(b, k))

    def arith(self, op, a, b, st, node):
        if isinstance(a, (int, float)) and isinstance(b, (int, float)) and not isinstance(a, bool) and not isinstance(b, bool) \
                and not isinstance(a, float) and not isinstance(b, float):
            if isinstance(op, ast.Add):
                return a + b
            if isinstance(op, ast.Sub):
                return a - b
            if isinstance(op, ast.Mult):
                return a * b
            if isinstance(op, ast.FloorDiv) and b > 0:
                return a // b
            if isinstance(op, ast.Mod) and b > 0:
                return a % b
        if isinstance(op, ast.Add) and (isinstance(a, PathV) or isinstance(b, PathV) or
                                       (isinstance(a, (str, ConstV)) and isinstance(b, (str, ConstV)) and (isinstance(a, ConstV) or isinstance(b, ConstV)))):
            def k(x):
                return x.key if isinstance(x, PathV) else (x if isinstance(x, str) else f"<{x.obj}>")
            return PathV(k(a) + k(b))
        if isinstance(a, LabV) or isinstance(b, LabV):
            if not isinstance(op, (ast.Add, ast.Sub)):
                raise VCError("label arrays support + and - only")
            r = z3.Int(f"r!lab{next(_fresh_counter)}")
            x = a.at(r) if isinstance(a, LabV) else to_z3(a, IntK)
            y = b.at(r) if isinstance(b, LabV) else to_z3(b, IntK)
            return LabV(z3.Lambda([r], x + y if isinstance(op, ast.Add) else x - y))
        # list repetition [x] * n
        if isinstance(op, ast.Mult) and isinstance(st.deref(a), SeqV) and not isinstance(st.deref(b), SeqV):
            seq = st.deref(a)
            sl = z3.simplify(to_z3(seq.len))
            if z3.is_int_value(sl) and sl.as_long() == 1:
                n = to_z3(b, IntK)
                return SeqV(z3.If(n > 0, n, z3.IntVal(0)), z3.K(z3.IntSort(), z3.Select(seq.arr, 0)), seq.elem)
            raise VCError("list repetition of non-singleton")
        if isinstance(op, ast.Add) and isinstance(st.deref(a), SeqV) and isinstance(st.deref(b), SeqV):
            return self.concat(st.deref(a), st.deref(b))
        if isinstance(op, ast.Sub) and isinstance(st.deref(a), SetV) and isinstance(st.deref(b), SetV):
            x = z3.Int("x!set")
            sa, sb = st.deref(a), st.deref(b)
            return SetV(z3.Lambda([x], z3.And(z3.Select(sa.mem, x), z3.Not(z3.Select(sb.mem, x)))))
        if isinstance(st.deref(a), SeqV) and not isinstance(st.deref(b), (SeqV, SetV)) and isinstance(op, (ast.Div, ast.Mult, ast.Add, ast.Sub)):
            # numpy-style elementwise operation of a 1-D array with a scalar
            seq = st.deref(a)
            i = z3.Int(f"i!ew{next(_fresh_counter)}")
            elem = self.arith(op, seq.elem.wrap(z3.Select(seq.arr, i)), b, st, node)
            return SeqV(seq.len, z3.Lambda([i], to_z3(elem)), kind_of(elem))
        ka, kb = kind_of(a), kind_of(b)
        real = ka is RealK or kb is RealK or isinstance(op, ast.Div)
        k = RealK if real else IntK
        x, y = to_z3(a, k), to_z3(b, k)
        if isinstance(op, ast.Add):
            return x + y
        if isinstance(op, ast.Sub):
            return x - y
        if isinstance(op, ast.Mult):
            return x * y
        if isinstance(op, ast.Div):
            return x / y
        if isinstance(op, ast.FloorDiv):
            if real:
                raise VCError("float floor division")
            if not getattr(st, "in_spec", False):
                self.emit(f"divisor-positive:{self.c.qualname}:L{node.lineno - self.fn.lineno}", "arith", st, y > 0, node)
            return x / y   # z3 integer division is floor division for positive divisors
        if isinstance(op, ast.Mod):
            if real:
                raise VCError("float modulo")
            if not getattr(st, "in_spec", False):
                self.emit(f"divisor-positive:{self.c.qualname}:L{node.lineno - self.fn.lineno}", "arith", st, y > 0, node)
            return x % y
        if isinstance(op, ast.Pow):
            if isinstance(a, int) and a == -1 and not isinstance(b, (float,)):
                n = to_z3(b, IntK)
                return z3.If(n % 2 == 0, z3.IntVal(1), z3.IntVal(-1))     # (-1) ** n for an integer n >= 0
            if isinstance(b, int) and 0 <= b <= 6:
                r = to_z3(1, k)
                for _ in range(b):
                    r = r * x
                return r
        raise VCError(f"operator {type(op).__name__}")

    def concat(self, a, b):
        i = z3.Int("i!cat")
        la = to_z3(a.len)
        arr = z3.Lambda([i], z3.If(i < la, z3.Select(a.arr, i), z3.Select(b.arr, i - la)))
        return SeqV(la + to_z3(b.len), arr, a.elem)

    def e_BinOp(self, e, st):
        a = self.eval(e.left, st)
        b = self.eval(e.right, st)
        return self.arith(e.op, a, b, st, e)

    def cmp(self, op, a, b, st):
        da, db = st.deref(a), st.deref(b)
        if isinstance(op, (ast.Is, ast.IsNot, ast.Eq, ast.NotEq)) and (da is None or db is None or isinstance(da, OptV) or isinstance(db, OptV)):
            if da is None and db is None:
                r = True
            elif da is None or db is None:
                o = db if da is None else da
                if isinstance(o, OptV):
                    r = o.is_none
                else:
                    r = False
            else:
                r = OptIntK.unwrap(da) == OptIntK.unwrap(db)
            neg = isinstance(op, (ast.IsNot, ast.NotEq))
            if isinstance(r, bool):
                return (not r) if neg else r
            return z3.Not(r) if neg else r
        if isinstance(op, (ast.Is, ast.IsNot)):
            if isinstance(da, ConstV) and isinstance(db, ConstV):
                r = da.obj is db.obj or da.obj == db.obj
                return r if isinstance(op, ast.Is) else not r
            if isinstance(da, bool) or isinstance(db, bool) or (is_z3(da) and z3.is_bool(da)):
                r = to_bool(da) == to_bool(db)
                return r if isinstance(op, ast.Is) else z3.Not(r)
            if isinstance(da, ConstV) or isinstance(db, ConstV):
                # symbolic enum-like field compared with a constant: both must be StrK-encoded
                r = self.enum_term(da) == self.enum_term(db)
                return r if isinstance(op, ast.Is) else z3.Not(r)
            raise VCError("`is` on non-None values")
        if isinstance(op, (ast.In, ast.NotIn)):
            r = self.contains(db, da, st)
            return r if isinstance(op, ast.In) else (not r if isinstance(r, bool) else z3.Not(r))
        if isinstance(da, ConstV) or isinstance(db, ConstV):
            r = self.enum_term(da) == self.enum_term(db)
            return r if isinstance(op, ast.Eq) else z3.Not(r)
        if isinstance(da, (int, float, str)) and isinstance(db, (int, float, str)) and not isinstance(da, float) and not isinstance(db, float):
            import operator
            f = {ast.Eq: operator.eq, ast.NotEq: operator.ne, ast.Lt: operator.lt, ast.LtE: operator.le,
                 ast.Gt: operator.gt, ast.GtE: operator.ge}[type(op)]
            return f(da, db)
        if isinstance(da, TupleV) and isinstance(db, TupleV) and isinstance(op, (ast.Eq, ast.NotEq)):
            if len(da.items) != len(db.items):
                r = False
            else:
                parts = [to_bool(self.cmp(ast.Eq(), x, y, st)) for x, y in zip(da.items, db.items)]
                r = z3.And(*parts) if parts else True
            if isinstance(op, ast.NotEq):
                return (not r) if isinstance(r, bool) else z3.Not(r)
            return r
        if isinstance(da, SeqV) and isinstance(db, SeqV) and isinstance(op, (ast.Eq, ast.NotEq)):
            r = z3.And(to_z3(da.len) == to_z3(db.len),
                       self.forall_idx(da.len, lambda i: z3.Select(da.arr, i) == z3.Select(db.arr, i)))
            return r if isinstance(op, ast.Eq) else z3.Not(r)
        if isinstance(da, SetV) and isinstance(db, SetV) and isinstance(op, (ast.Eq, ast.NotEq)):
            r = self.forall_int(lambda i: z3.Select(da.mem, i) == z3.Select(db.mem, i))
            return r if isinstance(op, ast.Eq) else z3.Not(r)
        if isinstance(da, SeqV) and not isinstance(db, (SeqV, SetV, TupleV)) and isinstance(op, (ast.Lt, ast.LtE, ast.Gt, ast.GtE)):
            i = z3.Int(f"i!ec{next(_fresh_counter)}")
            elem = self.cmp(op, da.elem.wrap(z3.Select(da.arr, i)), db, st)
            return SeqV(da.len, z3.Lambda([i], to_bool(elem)), BoolK)
        if isinstance(da, OptV) or isinstance(db, OptV):
            da, db = self.as_int(da, st, None), self.as_int(db, st, None)
        ka, kb = kind_of(da), kind_of(db)
        if ka is BoolK or kb is BoolK:
            x, y = to_bool(da), to_bool(db)
        else:
            k = RealK if (ka is RealK or kb is RealK) else (StrK if ka is StrK else IntK)
            x, y = to_z3(da, k), to_z3(db, k)
        if isinstance(op, ast.Eq):
            return x == y
        if isinstance(op, ast.NotEq):
            return x != y
        if isinstance(op, ast.Lt):
            return x < y
        if isinstance(op, ast.LtE):
            return x <= y
        if isinstance(op, ast.Gt):
            return x > y
        if isinstance(op, ast.GtE):
            return x >= y
        raise VCError("comparison")

    def enum_term(self, v):
        if isinstance(v, ConstV):
            return str_const(repr(v.obj) if not isinstance(v.obj, str) else v.obj)
        if is_z3(v) and v.sort() == Str:
            return v
        raise VCError("enum comparison with non-enum value")

    def contains(self, container, x, st):
        c = st.deref(container)
        if isinstance(c, SetV):
            if x is None or isinstance(x, OptV):
                if x is None:
                    return False
                return z3.And(z3.Not(x.is_none), c.has(x.val))
            return c.has(x)
        if isinstance(c, SeqV):
            xe = c.elem.unwrap(self.coerce(x, c.elem, st))
            return self.forall_idx(c.len, lambda i: z3.Select(c.arr, i) == xe, universal=False)
        if isinstance(c, RangeV):
            if c.step == 1:
                return z3.And(to_z3(x) >= to_z3(c.start), to_z3(x) < to_z3(c.stop))
            return z3.And(to_z3(x) <= to_z3(c.start), to_z3(x) > to_z3(c.stop))
        if isinstance(c, TupleV):
            parts = [to_bool(self.cmp(ast.Eq(), x, it, st)) for it in c.items]
            return z3.Or(*parts) if parts else False
        raise VCError(f"`in` on {type(c).__name__}")

    def e_Compare(self, e, st):
        left = self.eval(e.left, st)
        parts = []
        for op, right in zip(e.ops, e.comparators):
            r = self.eval(right, st)
            parts.append(self.cmp(op, left, r, st))
            left = r
        if len(parts) == 1:
            return parts[0]
        if all(isinstance(p, bool) for p in parts):
            return all(parts)
        return z3.And(*[to_bool(p) for p in parts])

    def e_Subscript(self, e, st):
        base = st.deref(self.eval(e.value, st))
        if isinstance(e.slice, ast.Slice):
            if not isinstance(base, SeqV):
                raise VCError("slice of non-sequence")
            if e.slice.step is not None:
                raise VCError("slice step")
            lo = self.eval(e.slice.lower, st) if e.slice.lower is not None else 0
            hi = self.eval(e.slice.upper, st) if e.slice.upper is not None else base.len
            lo, hi, n = to_z3(lo, IntK), to_z3(hi, IntK), to_z3(base.len)
            # python clamps: obligation-free for 0 <= lo, hi; negative bounds are outside the subset -> proved non-negative
            if not getattr(st, "in_spec", False):
                self.emit(f"bounds:{self.c.qualname}:L{e.lineno - self.fn.lineno}:slice-nonneg", "bounds", st,
                          z3.And(lo >= 0, hi >= 0), e)
            lo2 = z3.If(lo > n, n, lo)
            hi2 = z3.If(hi > n, n, hi)
            i = z3.Int("i!sl")
            return SeqV(z3.If(hi2 > lo2, hi2 - lo2, z3.IntVal(0)), z3.Lambda([i], z3.Select(base.arr, i + lo2)), base.elem)
        idx = self.eval(e.slice, st)
        if isinstance(base, SeqV):
            idx = self.norm_index(idx, base, st, e)
            return base.elem.wrap(z3.Select(base.arr, idx))
        if isinstance(base, TupleV):
            if isinstance(idx, int):
                return base.items[idx]
            raise VCError("symbolic tuple index")
        if isinstance(base, LabV):
            return base.at(idx)
        raise VCError(f"subscript of {type(base).__name__} at line {getattr(e, 'lineno', '?')}")

    def e_Attribute(self, e, st):
        base = self.eval(e.value, st)
        d = st.deref(base)
        if isinstance(d, RecV):
            if e.attr in d.fields:
                return d.fields[e.attr]
            raise VCError(f"attribute {e.attr} is not a declared field of record {d.cls} (stale contract?)")
        if isinstance(d, ConstV) and isinstance(d.obj, str):
            return ConstV(d.obj + "." + e.attr)
        raise VCError(f"attribute access .{e.attr} on {type(d).__name__}")

    def e_Lambda(self, e, st):
        return LambdaV(e, st)

    def e_ListComp(self, e, st):
        # [f(x) for x in seq]  (single generator, no condition) -> new list defined pointwise
        if len(e.generators) != 1 or e.generators[0].ifs:
            raise VCError("list comprehension with several generators / conditions")
        g = e.generators[0]
        it = st.deref(self.eval(g.iter, st))
        k = z3.Int(f"k!lc{next(_fresh_counter)}")
        sub = st.fork()
        sub.pc = st.pc
        sub.in_spec = getattr(st, "in_spec", False)
        if isinstance(it, SeqV):
            n = to_z3(it.len)
            self.assign(g.target, it.at(k), sub)
        elif isinstance(it, RangeV):
            n = self.range_len(it)
            self.assign(g.target, to_z3(it.start) + k * it.step, sub)
        else:
            raise VCError("list comprehension over unsupported iterable")
        old_bounds = self.c.bounds
        body = self.eval(e.elt, sub)
        body = st.deref(body)
        kd = kind_of(body) if not isinstance(body, SeqV) else ListK(body.elem)
        arr = z3.Lambda([k], kd.unwrap(body))
        return SeqV(n, arr, kd)

    # -- quantifier construction: unbounded (ForAll/Exists) or finite expansion in refutation mode
    def forall_idx(self, n, fn, universal=True):
        """quantify k over [0, n)"""
        n = to_z3(n, IntK)
        if self.bound is None:
            k = fresh("q", z3.IntSort())
            body = to_bool(fn(k))
            g = z3.And(k >= 0, k < n)
            return z3.ForAll([k], z3.Implies(g, body)) if universal else z3.Exists([k], z3.And(g, body))
        self.restrictions.append(n <= self.bound)
        parts = []
        for k in range(self.bound):
            body = to_bool(fn(z3.IntVal(k)))
            parts.append(z3.Implies(k < n, body) if universal else z3.And(k < n, body))
        if universal:
            return z3.And(*parts) if parts else z3.BoolVal(True)
        return z3.Or(*parts) if parts else z3.BoolVal(False)

    def forall_set(self, sv, fn, universal=True):
        """quantify x over the members of a set (finite mode: sets live in [0, bound))"""
        if self.bound is None:
            x = fresh("q", z3.IntSort())
            body = to_bool(fn(x))
            return z3.ForAll([x], z3.Implies(sv.has(x), body)) if universal else z3.Exists([x], z3.And(sv.has(x), body))
        parts = []
        for x in range(self.bound):
            body = to_bool(fn(z3.IntVal(x)))
            parts.append(z3.Implies(sv.has(x), body) if universal else z3.And(sv.has(x), body))
        if universal:
            return z3.And(*parts) if parts else z3.BoolVal(True)
        return z3.Or(*parts) if parts else z3.BoolVal(False)

    def forall_int(self, fn, universal=True):
        if self.bound is None:
            x = fresh("q", z3.IntSort())
            body = to_bool(fn(x))
            return z3.ForAll([x], body) if universal else z3.Exists([x], body)
        parts = [to_bool(fn(z3.IntVal(x))) for x in range(-1, self.bound + 1)]
        return z3.And(*parts) if universal else z3.Or(*parts)

    def quantify(self, e, st, universal):
        """all(P for x in it [if c] ...) / any(...)"""
        sub = st.fork()
        sub.pc = st.pc
        sub.in_spec = True
        return self._quantify_gens(list(e.generators), e.elt, sub, universal)

    def _quantify_gens(self, gens, elt, sub, universal):
        if not gens:
            return to_bool(self.eval(elt, sub))
        g = gens[0]
        it = sub.deref(self.eval(g.iter, sub))

        def body_for(val):
            s2 = sub.fork()
            s2.pc = sub.pc
            s2.in_spec = True
            self.assign(g.target, val, s2)
            conds = [to_bool(self.eval(c, s2)) for c in g.ifs]
            inner = self._quantify_gens(gens[1:], elt, s2, universal)
            if not conds:
                return inner
            cd = z3.And(*conds)
            return z3.Implies(cd, inner) if universal else z3.And(cd, inner)

        if isinstance(it, SeqV):
            return self.forall_idx(it.len, lambda k: body_for(it.at(k)), universal)
        if isinstance(it, RangeV):
            return self.forall_idx(self.range_len(it), lambda k: body_for(to_z3(it.start) + k * it.step), universal)
        if isinstance(it, SetV):
            return self.forall_set(it, body_for, universal)
        if isinstance(it, ConstV) and it.obj == "INT":
            return self.forall_int(body_for, universal)
        raise VCError("quantifier over unsupported iterable")

    def e_GeneratorExp(self, e, st):
        raise VCError("bare generator expression")

    # ---- calls
    def e_Call(self, e, st):
        f = e.func
        if isinstance(f, ast.Name):
            name = f.id
            if name in ("all", "any") and len(e.args) == 1 and isinstance(e.args[0], (ast.GeneratorExp, ast.ListComp)):
                return self.quantify(e.args[0], st, universal=(name == "all"))
            if name in st.env and isinstance(st.env[name], FuncV):
                return self.inline_call(st.env[name], e, st)
            if name in st.env and isinstance(st.env[name], LambdaV):
                lam = st.env[name]
                return self.apply_lambda(lam, [self.eval(a, st) for a in e.args], st)
            if name in self.c.ufuncs:
                doms, rng = self.c.ufuncs[name]
                sorts = {"int": z3.IntSort(), "bool": z3.BoolSort(), "real": z3.RealSort()}
                f_ = z3.Function(name, *[sorts[d] for d in doms], sorts[rng])
                return f_(*[to_z3(self.eval(a, st), IntK if d == "int" else None) for a, d in zip(e.args, doms)])
            if name in self.contracts:
                return self.call_contract(self.contracts[name], e, st, recv=None)
            b = getattr(self, "b_" + name, None)
            if b is not None:
                return b(e, st)
            raise VCError(f"call to {name} at line {getattr(e, 'lineno', '?')} has no contract and is not a modelled builtin")
        if isinstance(f, ast.Attribute):
            recv = self.eval(f.value, st)
            d = st.deref(recv)
            if isinstance(d, RecV) and f.attr in self.inline_nodes:
                res = self.inline_call_multi(FuncV(self.inline_nodes[f.attr], None, f.attr), e, st, recv)
                if len(res) != 1:
                    raise VCError(f"inlined method {f.attr} has {len(res)} exits inside an expression (only statement-level calls may fork)")
                st2, val = res[0]
                st.env, st.heap, st.pc, st.ghost, st.trace = st2.env, st2.heap, st2.pc, st2.ghost, st2.trace
                return val
            if isinstance(d, RecV) and f.attr in self.contracts:
                return self.call_contract(self.contracts[f.attr], e, st, recv=recv)
            if isinstance(d, ConstV) and isinstance(d.obj, str):
                dotted = (d.obj + "." + f.attr).replace(".", "_")
                x = getattr(self, "x_" + dotted, None)
                if x is not None:
                    return x(e, st)
                raise VCError(f"external call {d.obj}.{f.attr} at line {getattr(e, 'lineno', '?')} is not modelled")
            m = getattr(self, "m_" + f.attr, None)
            if m is not None:
                return m(e, recv, st)
            raise VCError(f"method .{f.attr}() at line {getattr(e, 'lineno', '?')} has no contract and is not modelled")
        raise VCError("call of computed function")

    def apply_lambda(self, lam, args, st):
        sub = st.fork()
        sub.pc = st.pc
        sub.in_spec = getattr(st, "in_spec", False)
        for a, v in zip(lam.node.args.args, args):
            sub.env[a.arg] = v
        return self.eval(lam.node.body, sub)

    def inline_call(self, fv, e, st):
        """nested def: executed in place, sharing the enclosing environment (closure);
        only single-exit normal paths are merged back (forking inside is returned through exec)"""
        node = fv.node
        if e.args or e.keywords or node.args.args:
            params = [a.arg for a in node.args.args]
            vals = [self.eval(a, st) for a in e.args]
            if len(params) != len(vals) or e.keywords:
                raise VCError("inlined call with keyword/default arguments")
        else:
            params, vals = [], []
        saved = {p: st.env.get(p, _MISSING) for p in params}
        for p, v in zip(params, vals):
            st.env[p] = v
        # remember loops of the inlined function under their own keys (ordinals are global within the contract function)
        outs = self.exec_block(node.body, st)
        rets = [o for o in outs if o.kind in ("return", "normal")]
        others = [o for o in outs if o.kind not in ("return", "normal")]
        if len(rets) != 1:
            raise VCError(f"inlined function {node.name} has {len(rets)} normal exits (only one supported)")
        o = rets[0]
        # continue in o.st : copy back into st (same object semantics)
        st.env, st.heap, st.pc, st.ghost, st.trace = o.st.env, o.st.heap, o.st.pc, o.st.ghost, o.st.trace
        for p, v in saved.items():
            if v is _MISSING:
                st.env.pop(p, None)
            else:
                st.env[p] = v
        return o.val if o.kind == "return" else None

    def call_contract(self, cc, e, st, recv=None):
        """call by contract: assert requires, havoc modifies, assume ensures"""
        pnames = list(cc.params)
        vals = {}
        args = list(e.args)
        if recv is not None:
            vals[pnames[0]] = recv
            pn = pnames[1:]
        else:
            pn = pnames
        for n, a in zip(pn, args):
            vals[n] = self.eval(a, st)
        for kw in e.keywords:
            vals[kw.arg] = self.eval(kw.value, st)
        for n in pnames:
            if n not in vals:
                dflt = getattr(cc, "defaults", {}).get(n, _MISSING)
                if dflt is _MISSING:
                    raise VCError(f"call to {cc.qualname}: argument {n} missing")
                vals[n] = dflt
        sub = st.fork()
        sub.pc = st.pc
        sub.env = dict(vals)
        sub.ghost = {}
        q = self.c.qualname
        for i, r in enumerate(cc.requires):
            self.emit(f"call-pre:{q}->{cc.qualname}:L{e.lineno - self.fn.lineno}:{i}", "call-pre", st,
                      self.eval_spec_in(r, sub), e, note=r)
        olds = {"old_" + n: self.snapshot(st, v) for n, v in vals.items()}
        for n in cc.modifies:
            if isinstance(vals.get(n), Ref):
                self.havoc_ref(st, vals[n], f"{n}@{cc.qualname}")
        res = None
        if cc.result:
            res = fresh_value(st, parse_kind(cc.result, cc.records or self.records), f"ret_{cc.qualname}")
        sub2 = st.fork()
        sub2.pc = st.pc
        sub2.env = dict(vals)
        sub2.env.update(olds)
        sub2.env["result"] = res
        sub2.ghost = {}
        sub2.heap = st.heap
        for oid, en in cc.ensures:
            st.assume(self.eval_spec_in(en, sub2))
        return res

    def eval_spec_in(self, expr, sub):
        node = ast.parse(expr, mode="eval").body
        sub.in_spec = True
        return to_bool(self.eval(node, sub))

    # ---- builtins
    def b_len(self, e, st):
        v = st.deref(self.eval(e.args[0], st))
        if isinstance(v, SeqV):
            return v.len
        if isinstance(v, RangeV):
            return self.range_len(v)
        if isinstance(v, SetV):
            card = fresh("card", z3.IntSort())
            st.pc.append(card >= 0)
            st.pc.append((card == 0) == self.forall_set(v, lambda x: z3.BoolVal(False)))
            return card
        if isinstance(v, TupleV):
            return len(v.items)
        raise VCError("len of unsupported value")

    def b_isinstance(self, e, st):
        """decided from the static kind of the value (kinds come from the contract's parameter declarations): sequences are
        list/tuple/np.ndarray, integers are int; anything else is outside the subset"""
        v = st.deref(self.eval(e.args[0], st))
        t = e.args[1]
        names = [ast.unparse(x) for x in (t.elts if isinstance(t, ast.Tuple) else [t])]
        seq_names = {"list", "tuple", "np.ndarray", "numpy.ndarray", "Sequence"}
        int_names = {"int", "np.integer", "numbers.Integral"}
        if isinstance(v, SeqV):
            if any(n in seq_names for n in names):
                return True
            if all(n in int_names | {"float", "complex", "str", "bool"} for n in names):
                return False
        if isinstance(v, int) and not isinstance(v, bool) or (is_z3(v) and z3.is_int(v)):
            if any(n in int_names for n in names):
                return True
            if all(n in seq_names | {"str", "dict", "set"} for n in names):
                return False
        raise VCError(f"isinstance({ast.unparse(e.args[0])}, {ast.unparse(t)}) not decidable from the declared kind")

    def b_range(self, e, st):
        a = [self.as_int(self.eval(x, st), st, e) for x in e.args]
        if len(a) == 1:
            return RangeV(0, a[0], 1)
        if len(a) == 2:
            return RangeV(a[0], a[1], 1)
        step = a[2]
        if isinstance(step, int) and step in (1, -1):
            return RangeV(a[0], a[1], step)
        raise VCError("range with non-unit step")

    def b_min(self, e, st):
        return self._minmax(e, st, True)

    def b_max(self, e, st):
        return self._minmax(e, st, False)

    def _minmax(self, e, st, is_min):
        if len(e.args) < 2:
            raise VCError("min/max of an iterable")
        vals = [self.eval(a, st) for a in e.args]
        ks = [kind_of(v) for v in vals]
        k = RealK if any(x is RealK for x in ks) else IntK
        r = to_z3(vals[0], k)
        for v in vals[1:]:
            y = to_z3(v, k)
            r = z3.If(y < r, y, r) if is_min else z3.If(y > r, y, r)
        return r

    def b_int(self, e, st):
        v = self.eval(e.args[0], st)
        if kind_of(v) is IntK:
            return v
        if kind_of(v) is BoolK:
            return z3.If(to_bool(v), z3.IntVal(1), z3.IntVal(0))
        raise VCError("int() of non-integer")

    def b_bool(self, e, st):
        return to_bool(self.eval(e.args[0], st))

    def b_abs(self, e, st):
        v = to_z3(self.eval(e.args[0], st))
        return z3.If(v >= 0, v, -v)

    def b_implies(self, e, st):
        a = to_bool(self.eval(e.args[0], st))
        b = to_bool(self.eval(e.args[1], st))
        return z3.Implies(a, b)

    def b_iff(self, e, st):
        return to_bool(self.eval(e.args[0], st)) == to_bool(self.eval(e.args[1], st))

    def b_ite(self, e, st):
        c = to_bool(self.eval(e.args[0], st))
        a, b = self.eval(e.args[1], st), self.eval(e.args[2], st)
        k = kind_of(a)
        return z3.If(c, to_z3(a, k), to_z3(b, k))

    def b_list(self, e, st):
        if not e.args:
            return SeqV(z3.IntVal(0), z3.K(z3.IntSort(), z3.IntVal(0)), IntK)
        v = st.deref(self.eval(e.args[0], st))
        if isinstance(v, SeqV):
            return SeqV(v.len, v.arr, v.elem)
        if isinstance(v, RangeV) and v.step == 1:
            i = z3.Int("i!rg")
            return SeqV(self.range_len(v), z3.Lambda([i], i + to_z3(v.start)), IntK)
        raise VCError("list() of unsupported value")

    def b_set(self, e, st):
        if not e.args:
            return SetV(z3.K(z3.IntSort(), z3.BoolVal(False)))
        v = st.deref(self.eval(e.args[0], st))
        x = z3.Int("x!set")
        if isinstance(v, RangeV):
            if v.step != 1:
                raise VCError("set(range) with step")
            if self.bound is not None:
                self.restrictions.append(z3.Or(to_z3(v.stop) <= to_z3(v.start), z3.And(to_z3(v.start) >= 0, to_z3(v.stop) <= self.bound)))
            return SetV(z3.Lambda([x], z3.And(x >= to_z3(v.start), x < to_z3(v.stop))))
        if isinstance(v, SeqV):
            if v.elem is IntK:
                if self.bound is not None:
                    self.restrictions.append(self.forall_idx(v.len, lambda i: z3.And(z3.Select(v.arr, i) >= 0, z3.Select(v.arr, i) < self.bound)))
                return SetV(z3.Lambda([x], self.forall_idx(v.len, lambda i: z3.Select(v.arr, i) == x, universal=False)))
            if v.elem is OptIntK:
                # membership of None is not modelled (never queried: `None in s` raises VCError)
                if self.bound is not None:
                    self.restrictions.append(self.forall_idx(v.len, lambda i: z3.Or(
                        OptInt.is_none(z3.Select(v.arr, i)),
                        z3.And(OptInt.val(z3.Select(v.arr, i)) >= 0, OptInt.val(z3.Select(v.arr, i)) < self.bound))))
                return SetV(z3.Lambda([x], self.forall_idx(v.len, lambda i: z3.Select(v.arr, i) == OptInt.some(x), universal=False)))
        if isinstance(v, SetV):
            return SetV(v.mem)
        raise VCError("set() of unsupported value")

    def b_old(self, e, st):
        raise VCError("use old_<name>")

    # ---- modelled externals (assumed contracts, listed in evidence)
    CNT = z3.Function("cnt", z3.ArraySort(z3.IntSort(), z3.BoolSort()), z3.IntSort(), z3.IntSort())

    def count_true(self, arr, n, st):
        """number of True among arr[0..n): uninterpreted cnt with its recursive definition and the
        (separately proved, see contracts/configs.py lemma cnt_bounds) bounds 0 <= cnt <= n"""
        m = fresh("m", z3.IntSort())
        c = Executor.CNT
        if not z3.is_const(arr):
            # the same flag array (structurally identical term) always gets the same name, so that counts taken in different
            # states of one run are comparable without an extensionality argument
            key = arr.sexpr()
            cache = self.__dict__.setdefault("_flag_cache", {})
            if key not in cache:
                cache[key] = fresh("flags", z3.ArraySort(z3.IntSort(), z3.BoolSort()))
            nm = cache[key]
            st.pc.append(z3.ForAll([m], z3.Select(nm, m) == z3.Select(arr, m)))
            arr = nm
        st.pc.append(c(arr, 0) == 0)
        if self.bound is None:
            st.pc.append(z3.ForAll([m], z3.Implies(m >= 1, c(arr, m) == c(arr, m - 1) + z3.If(z3.Select(arr, m - 1), 1, 0)),
                                   patterns=[c(arr, m)]))
            st.pc.append(z3.ForAll([m], z3.Implies(m >= 0, z3.And(c(arr, m) >= 0, c(arr, m) <= m)), patterns=[c(arr, m)]))
        else:
            # finite mode: the recursive definition is unfolded for all lengths up to the bound (exact under the length restriction)
            self.restrictions.append(to_z3(n, IntK) <= self.bound)
            for mm in range(1, self.bound + 1):
                st.pc.append(c(arr, mm) == c(arr, mm - 1) + z3.If(z3.Select(arr, mm - 1), 1, 0))
        return c(arr, to_z3(n, IntK))

    def x_np_sum(self, e, st):
        v = st.deref(self.eval(e.args[0], st))
        if isinstance(v, SeqV) and v.elem is BoolK:
            return self.count_true(v.arr, v.len, st)
        raise VCError("np.sum of a non-boolean array")

    def x_np_array(self, e, st):
        # np.array(list of scalars): the same finite sequence (assumed: float64/int64 conversion of each entry is exact, listed as an assumption)
        if len(e.args) != 1 or any(kw.arg != "dtype" for kw in e.keywords):
            raise VCError("np.array with unsupported arguments")
        v = st.deref(self.eval(e.args[0], st))
        if isinstance(v, SeqV):
            return v
        raise VCError("np.array of a non-list")

    def x_scipy_linalg_norm(self, e, st):
        v = st.deref(self.eval(e.args[0], st))
        if not isinstance(v, SeqV):
            raise VCError("norm of non-array")
        nrm = fresh("norm", z3.RealSort())
        st.pc.append(nrm >= 0)   # assumed contract of scipy.linalg.norm
        return nrm

    # ---- ghost file system (crash-safety proofs): every call is a crash point
    def fs_get(self, st, p):
        if not isinstance(p, PathV):
            raise VCError("file-system call on a non-path value")
        if p.key not in st.fs:
            v = fresh("fs0_" + "".join(c if c.isalnum() else "_" for c in p.key)[-40:], z3.IntSort())
            st.pc.append(v >= 0)
            st.fs[p.key] = v
            self.entry_fs.setdefault(p.key, v)
        return st.fs[p.key]

    def crash_point(self, st, node, what):
        inv = self.c.crash_invariant
        if inv is None:
            return
        self.crash_ordinal += 1
        g = self.eval_spec(inv, st)
        self.emit(f"crash-inv:{self.c.qualname}:{self.crash_ordinal:02d}:{what}", "crash", st, g, node, note=f"process dies {what}")

    def _path_arg(self, e, st, i=0):
        v = self.eval(e.args[i], st)
        if isinstance(v, (str, ConstV)):
            v = PathV(v if isinstance(v, str) else f"<{v.obj}>")
        return v

    def x_os_path_join(self, e, st):
        parts = [self.eval(a, st) for a in e.args]
        def k(x):
            return x.key if isinstance(x, PathV) else (x if isinstance(x, str) else f"<{x.obj}>")
        return PathV("/".join(k(p_) for p_ in parts))

    def x_os_makedirs(self, e, st):
        self.crash_point(st, e, "before makedirs")
        return None

    def x_os_path_exists(self, e, st):
        p = self._path_arg(e, st)
        return self.fs_get(st, p) != 0

    def x_os_remove(self, e, st):
        p = self._path_arg(e, st)
        cur = self.fs_get(st, p)
        self.crash_point(st, e, f"before remove({ast.unparse(e.args[0])})")
        self.emit(f"fs:{self.c.qualname}:L{e.lineno - self.fn.lineno}:remove-existing", "fs", st, cur != 0, e, note="os.remove of a missing file raises")
        st.assume(cur != 0)
        st.fs[p.key] = z3.IntVal(0)
        return None

    def _move(self, e, st, name):
        src, dst = self._path_arg(e, st, 0), self._path_arg(e, st, 1)
        cur = self.fs_get(st, src)
        self.fs_get(st, dst)
        self.crash_point(st, e, f"before {name}({ast.unparse(e.args[0])}, {ast.unparse(e.args[1])})")
        self.emit(f"fs:{self.c.qualname}:L{e.lineno - self.fn.lineno}:{name}-existing-source", "fs", st, cur != 0, e)
        st.assume(cur != 0)
        st.fs[dst.key] = cur          # atomic on POSIX (trusted)
        st.fs[src.key] = z3.IntVal(0)
        return None

    def x_os_rename(self, e, st):
        return self._move(e, st, "rename")

    def x_os_replace(self, e, st):
        return self._move(e, st, "replace")

    def x_np_savez(self, e, st):
        p = self._path_arg(e, st)
        self.fs_get(st, p)
        self.crash_point(st, e, f"before savez({ast.unparse(e.args[0])})")
        st.fs[p.key] = z3.IntVal(1)   # not atomic: the file is partial while it is written
        self.crash_point(st, e, f"during savez({ast.unparse(e.args[0])})")
        gen = st.env.get("__gen__")
        st.fs[p.key] = 2 + to_z3(gen, IntK)
        return None

    def b_fstate(self, e, st):
        """spec function: ghost state of a path"""
        p = self._path_arg(e, st)
        return self.fs_get(st, p)

    def b_fstate0(self, e, st):
        """spec function: ghost state of a path at function entry"""
        p = self._path_arg(e, st)
        self.fs_get(st, p)
        return self.entry_fs[p.key]

    def b_count_if(self, e, st):
        """spec function count_if(lambda x: cond, seq, k): #{i < k : cond(seq[i])}"""
        lam = self.eval(e.args[0], st)
        seq = st.deref(self.eval(e.args[1], st))
        k = self.eval(e.args[2], st) if len(e.args) > 2 else seq.len
        i = z3.Int("i!cif")
        body = to_bool(self.apply_lambda(lam, [seq.at(i)], st))
        return self.count_true(z3.Lambda([i], body), k, st)

    def b_rsum(self, e, st):
        """spec function rsum(lambda i: term, k) = sum_{i<k} term(i), as an uninterpreted function with its recursive definition"""
        lam = self.eval(e.args[0], st)
        k = to_z3(self.eval(e.args[1], st), IntK)
        i = z3.Int("i!rsum")
        term = to_z3(self.apply_lambda(lam, [i], st), IntK)
        key = term.sexpr()
        cache = self.__dict__.setdefault("_rsum_cache", {})
        if key not in cache:
            cache[key] = z3.Function(f"rsum!{len(cache)}", z3.IntSort(), z3.IntSort())
        f_ = cache[key]
        m = fresh("m", z3.IntSort())
        st.pc.append(f_(0) == 0)
        if self.bound is None:
            st.pc.append(z3.ForAll([m], z3.Implies(m >= 1, f_(m) == f_(m - 1) + z3.substitute(term, (i, m - 1))), patterns=[f_(m)]))
        else:
            self.restrictions.append(k <= self.bound)
            for mm in range(1, self.bound + 1):
                st.pc.append(f_(mm) == f_(mm - 1) + z3.substitute(term, (i, z3.IntVal(mm - 1))))
        return f_(k)

    def b_count_gt_div(self, e, st):
        """spec function: #{i : seq[i]/d > t}"""
        seq = st.deref(self.eval(e.args[0], st))
        d = to_z3(self.eval(e.args[1], st), RealK)
        t = to_z3(self.eval(e.args[2], st), RealK)
        i = z3.Int("i!cg")
        return self.count_true(z3.Lambda([i], z3.Select(seq.arr, i) / d > t), seq.len, st)

    # ---- methods
    def m_add(self, e, recv, st):
        s = st.heap[recv.addr]
        if not isinstance(s, SetV):
            raise VCError(".add on non-set")
        x = self.eval(e.args[0], st)
        if isinstance(x, OptV):
            self.emit(f"type:{self.c.qualname}:L{e.lineno - self.fn.lineno}:add-not-None", "type", st, z3.Not(x.is_none), e)
            x = x.val
        if self.bound is not None:
            self.restrictions.append(z3.And(to_z3(x, IntK) >= 0, to_z3(x, IntK) < self.bound))
        st.heap[recv.addr] = SetV(z3.Store(s.mem, to_z3(x, IntK), z3.BoolVal(True)))
        return None

    def m_pop(self, e, recv, st):
        s = st.heap[recv.addr]
        if isinstance(s, SetV) and not e.args:
            u = fresh("popped", z3.IntSort())
            # KeyError if empty: obligation
            self.emit(f"nonempty:{self.c.qualname}:L{e.lineno - self.fn.lineno}:set.pop", "bounds", st,
                      self.forall_set(s, lambda x: z3.BoolVal(True), universal=False), e)
            st.assume(z3.Select(s.mem, u))
            if self.bound is not None:
                self.restrictions.append(z3.And(u >= 0, u < self.bound))
            st.heap[recv.addr] = SetV(z3.Store(s.mem, u, z3.BoolVal(False)))
            return u
        raise VCError(".pop outside subset")

    def m_append(self, e, recv, st):
        s = st.heap[recv.addr]
        if not isinstance(s, SeqV):
            raise VCError(".append on non-list")
        x = st.deref(self.eval(e.args[0], st))
        elem = s.elem
        sl = z3.simplify(to_z3(s.len))
        if z3.is_int_value(sl) and sl.as_long() == 0 and not isinstance(x, (int, bool)) :
            # empty literal list: element kind decided by the first append
            try:
                elem = kind_of(x) if not isinstance(x, SeqV) else ListK(x.elem)
            except VCError:
                pass
            if elem is not s.elem:
                s = SeqV(s.len, z3.K(z3.IntSort(), self.default_of(elem)), elem)
        st.heap[recv.addr] = SeqV(to_z3(s.len) + 1, z3.Store(s.arr, to_z3(s.len), elem.unwrap(self.coerce(x, elem, st))), elem)
        return None

    def m_count(self, e, recv, st):
        seq = st.deref(recv)
        if not isinstance(seq, SeqV):
            raise VCError(".count on non-list")
        x = self.eval(e.args[0], st)
        xe = seq.elem.unwrap(self.coerce(x, seq.elem, st))
        i = z3.Int("i!cnt")
        return self.count_true(z3.Lambda([i], z3.Select(seq.arr, i) == xe), seq.len, st)

    def m_copy(self, e, recv, st):
        d = st.deref(recv)
        if isinstance(d, (SeqV, SetV)):
            return st.alloc(d)
        raise VCError(".copy outside subset")


class UnboundAfterLoop:
    def __init__(self, name, n_iter, elem, k):
        self.name, self.n_iter, self.elem, self.k = name, n_iter, elem, k


_MISSING = object()
BUILTINS = {"INT"}


# ----------------------------------------------------------------------------------------------
# discharge


def solve(ob, timeout_ms=20000, want_model=True, stage=1):
    """stage 1: z3 API with a short budget; returns (status, backend, seconds, model);
    status in discharged | violated | undecided"""
    t0 = time.time()
    s = z3.Solver()
    s.set("timeout", min(timeout_ms, 8000))
    for f in ob.pc:
        s.add(f)
    add_distinct(s)
    s.add(z3.Not(ob.goal))
    r = s.check()
    dt = time.time() - t0
    if r == z3.unsat:
        return "discharged", "z3-5.1(api)", dt, None
    if r == z3.sat:
        return "violated", "z3-5.1(api)", dt, s.model()
    return "undecided", "z3-5.1(api)", dt, None


def add_distinct(s):
    """string literals / enum members are pairwise distinct constants of the uninterpreted sort Str"""
    if len(_str_consts) > 1:
        s.add(z3.Distinct(*_str_consts.values()))


def solve_second(ob, timeout_ms=20000):
    """stage 2 (after the finite-universe refutation attempt): other solvers on the same query"""
    s = z3.Solver()
    add_distinct(s)
    for f in ob.pc:
        s.add(f)
    s.add(z3.Not(ob.goal))
    smt = s.to_smt2()
    st2, be2, dt2 = second_opinion(smt, max(1, timeout_ms // 1000))
    if st2 is not None:
        return st2, be2, dt2
    return "undecided", "z3-5.1(api)+cvc5-1.0.3+z3-4.8.12", dt2


def second_opinion(smt2, timeout_s):
    import os
    import subprocess
    import tempfile
    t0 = time.time()
    verdict, backend = None, None
    with tempfile.NamedTemporaryFile("w", suffix=".smt2", delete=False, dir=os.environ.get("TMPDIR", "/tmp")) as fh:
        fh.write(smt2)
        path = fh.name
    try:
        for cmd, name in (["/usr/bin/cvc5", "--tlimit=%d" % (timeout_s * 1000), path], "cvc5-1.0.3"), \
                         (["/usr/bin/z3", "-T:%d" % timeout_s, path], "z3-4.8.12"):
            try:
                out = subprocess.run(cmd, capture_output=True, text=True, timeout=timeout_s + 5).stdout.strip().splitlines()
            except Exception:
                continue
            if out and out[0].strip() == "unsat":
                verdict, backend = "discharged", name
                break
            if out and out[0].strip() == "sat":
                verdict, backend = "violated", name
                break
    finally:
        os.unlink(path)
    return verdict, backend, time.time() - t0


def cover_sat(pc, timeout_ms=800):
    s = z3.Solver()
    s.set("timeout", timeout_ms)
    for f in pc:
        s.add(f)
    return s.check()
