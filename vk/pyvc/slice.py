"""Mechanical extraction of a statement slice of a real function as a stand-alone function for pyvc.

The slice is described declaratively (which loop body, which statements, which expression is returned, which
sub-expression becomes a parameter) and re-extracted from the current source on every run; evidence records the
description.  Nothing is hand-copied."""
import ast
import copy


class SliceError(Exception):
    pass


def loop_body(fn, ordinal):
    loops = [n for n in ast.walk(fn) if isinstance(n, (ast.For, ast.While))]
    loops.sort(key=lambda n: (n.lineno, n.col_offset))
    if ordinal >= len(loops):
        raise SliceError(f"function has {len(loops)} loops, slice wants loop #{ordinal}")
    return loops[ordinal].body


class _Subst(ast.NodeTransformer):
    def __init__(self, mapping):
        self.mapping = mapping    # unparsed source text -> parameter name

    def generic_visit(self, node):
        node = super().generic_visit(node)
        if isinstance(node, ast.expr):
            try:
                txt = ast.unparse(node)
            except Exception:
                return node
            if txt in self.mapping:
                return ast.copy_location(ast.Name(id=self.mapping[txt], ctx=ast.Load()), node)
        return node


def make_slice(fn, name, body_of_loop, stmt_range, params, returns):
    """body_of_loop: ordinal of the loop whose body is sliced; stmt_range: (first, last) statement indices (inclusive) in that body;
    params: {source text of an expression: parameter name}; returns: python expression over the slice's locals, or a callable
    (body statements -> ast expression) that locates an expression in the *rest* of the loop body"""
    body = loop_body(fn, body_of_loop)
    first, last = stmt_range
    if last >= len(body):
        raise SliceError(f"loop body has {len(body)} statements, slice wants {first}..{last}")
    stmts = [copy.deepcopy(x) for x in body[first:last + 1]]
    if callable(returns):
        ret_expr = copy.deepcopy(returns(body))
    else:
        ret_expr = ast.parse(returns, mode="eval").body
    sub = _Subst(params)
    stmts = [sub.visit(x) for x in stmts]
    ret_expr = sub.visit(ret_expr)
    f = ast.FunctionDef(name=name, args=ast.arguments(posonlyargs=[], args=[ast.arg(arg=p) for p in dict.fromkeys(params.values())], kwonlyargs=[], kw_defaults=[], defaults=[]),
                        body=stmts + [ast.Return(value=ret_expr)], decorator_list=[], type_params=[])
    f.lineno = body[first].lineno
    f.col_offset = 0
    ast.fix_missing_locations(f)
    for n in ast.walk(f):
        if not hasattr(n, "lineno"):
            n.lineno = f.lineno
    return f


class _SubstExpr(ast.NodeTransformer):
    def __init__(self, mapping):
        self.mapping = mapping    # unparsed source text -> replacement expression text

    def generic_visit(self, node):
        node = super().generic_visit(node)
        if isinstance(node, ast.expr):
            try:
                txt = ast.unparse(node)
            except Exception:
                return node
            if txt in self.mapping:
                self.hits[txt] = self.hits.get(txt, 0) + 1
                return ast.copy_location(ast.parse(self.mapping[txt], mode="eval").body, node)
        return node
    hits = None


def whole_function(fn, name, subst, params, must_hit=()):
    """the whole body of a real function as a stand-alone function: listed sub-expressions (by source text) are replaced by expressions over the
    new parameters (e.g. `len(self)` -> `n`, `self[i].check_rortho(rtol, atol)` -> `ortho[i]`); everything else is kept verbatim.
    must_hit: source texts that have to occur (otherwise the description no longer fits the code: SliceError = stale contract)"""
    sub = _SubstExpr(subst)
    sub.hits = {}
    stmts = [sub.visit(copy.deepcopy(x)) for x in fn.body if not (isinstance(x, ast.Expr) and isinstance(x.value, ast.Constant) and isinstance(x.value.value, str))]
    for t in must_hit:
        if not sub.hits.get(t):
            raise SliceError(f"expression `{t}` does not occur in {fn.name} any more")
    f = ast.FunctionDef(name=name, args=ast.arguments(posonlyargs=[], args=[ast.arg(arg=p) for p in params], kwonlyargs=[], kw_defaults=[], defaults=[]),
                        body=stmts, decorator_list=[], type_params=[])
    f.lineno = fn.lineno
    f.col_offset = 0
    ast.fix_missing_locations(f)
    for n in ast.walk(f):
        if not hasattr(n, "lineno"):
            n.lineno = f.lineno
    return f
