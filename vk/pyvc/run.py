"""Run pyvc on one function under contract and report into a vk.common.Run."""
import ast
import time

import z3

from vk.common import REPO
from vk.pyvc import engine as E

_index = None


def index():
    global _index
    if _index is None:
        _index = E.SourceIndex(REPO)
    return _index


def loop_headers(fn):
    """loop key -> normalised header text"""
    out, counts = {}, {}

    def visit(node):
        for ch in ast.iter_child_nodes(node):
            if isinstance(ch, (ast.For, ast.While)):
                k = "for" if isinstance(ch, ast.For) else "while"
                n = counts.get(k, 0)
                counts[k] = n + 1
                if isinstance(ch, ast.For):
                    out[f"{k}#{n}"] = f"for {ast.unparse(ch.target)} in {ast.unparse(ch.iter)}"
                else:
                    out[f"{k}#{n}"] = f"while {ast.unparse(ch.test)}"
            visit(ch)
    visit(fn)
    return out


def model_value(model, st, v, depth=0):
    """concretise a symbolic value under a z3 model"""
    v = st.deref(v) if isinstance(v, E.Ref) else v
    if isinstance(v, E.SeqV):
        n = model.eval(E.to_z3(v.len), model_completion=True).as_long()
        n = max(0, min(n, 64))
        return [model_value(model, st, v.at(i), depth + 1) for i in range(n)]
    if isinstance(v, E.OptV):
        e = model.eval(v.e, model_completion=True)
        if z3.is_true(model.eval(E.OptInt.is_none(e), model_completion=True)):
            return None
        return model.eval(E.OptInt.val(e), model_completion=True).as_long()
    if isinstance(v, E.SetV):
        return "<set>"
    if isinstance(v, E.RecV):
        return {k: model_value(model, st, x, depth + 1) for k, x in v.fields.items()}
    if isinstance(v, E.TupleV):
        return [model_value(model, st, x, depth + 1) for x in v.items]
    if E.is_z3(v) and v.sort() == E.Str:
        for name, c in E._str_consts.items():
            if z3.is_true(model.eval(v == c, model_completion=True)):
                return name
        return "<other string>"
    if E.is_z3(v):
        r = model.eval(v, model_completion=True)
        if z3.is_int_value(r):
            return r.as_long()
        if z3.is_true(r):
            return True
        if z3.is_false(r):
            return False
        if z3.is_rational_value(r):
            return float(r.as_fraction())
        return str(r)
    return v


def minimise(ob, ex, size_terms, timeout_ms=5000):
    """re-ask with growing size bounds so that counter-models are small (DESIGN §4)"""
    for bound in (1, 2, 3, 4, 6):
        s = z3.Solver()
        s.set("timeout", timeout_ms)
        for f in ob.pc:
            s.add(f)
        s.add(z3.Not(ob.goal))
        for t in size_terms:
            s.add(t <= bound, t >= -bound)
        if s.check() == z3.sat:
            return s.model()
    return None


def run_bounded(contract, fn, relpath, contracts, B):
    """second symbolic execution in finite-universe mode (refutation only)"""
    E.SetK.universe = B
    try:
        bex = E.Executor(contract, fn, relpath, contracts=contracts or {})
        for mname, mqual in (getattr(contract, "inline", None) or {}).items():
            bex.inline_nodes[mname] = index().find(relpath, mqual)
        bex.bound = B
        obs = bex.run()
    except E.VCError:
        return None
    finally:
        E.SetK.universe = None
    idx, seen = {}, {}
    for ob in obs:
        seen[ob.oid] = seen.get(ob.oid, 0) + 1
        idx[(ob.oid, seen[ob.oid])] = ob
    return {"exe": bex, "index": idx}


def verify_node(run, relpath, contract, fn_node, **kw):
    """verify a mechanically extracted slice (vk/pyvc/slice.py) instead of a whole function"""
    return verify(run, relpath, contract, fn_node=fn_node, **kw)


def verify(run, relpath, contract, fn_qual=None, contracts=None, fingerprint=None, tag="", replay=None,
           timeout_ms=20000, property_fields=None, fn_node=None):
    """Generate and discharge all obligations of one function under `contract`.

    replay(counterexample dict, obligation) -> (fired: bool, detail) runs the real function natively.
    Returns dict with counts; violations are reported through `run`.
    """
    fn_qual = fn_qual or contract.qualname
    label = fn_qual + (f"[{tag}]" if tag else "")
    t0 = time.time()
    try:
        fn = fn_node if fn_node is not None else index().find(relpath, fn_qual)
    except E.VCError as ex:
        run.oblig(f"extract:{label}", label, "A(pyvc)", "undecided", detail=str(ex))
        return {"stale": True}
    stale_reason = None
    if fingerprint is not None:
        cur = loop_headers(fn)
        # stale = different loop *structure* (number / kind / nesting order of loops).  A changed loop header with the same
        # structure is an ordinary code change: its obligations are decided normally (invariants are semantic).
        if sorted(cur) != sorted(fingerprint):
            stale_reason = f"loop structure differs from the contract's fingerprint: {cur} vs {fingerprint}"
    # default argument values of callees are read from the current source (a changed default changes the call's meaning)
    for cname, cc in (contracts or {}).items():
        try:
            cfn = index().find(relpath, cc.qualname)
            args = cfn.args.args
            dfl = cfn.args.defaults
            cc.defaults = {}
            for a, d in zip(args[len(args) - len(dfl):], dfl):
                try:
                    cc.defaults[a.arg] = ast.literal_eval(d)
                except Exception:
                    pass
        except E.VCError:
            pass
    exe = E.Executor(contract, fn, relpath, contracts=contracts or {}, timeout_ms=timeout_ms)
    try:
        for mname, mqual in (getattr(contract, "inline", None) or {}).items():
            exe.inline_nodes[mname] = index().find(relpath, mqual)
        obs = exe.run()
    except E.VCError as ex:
        run.oblig(f"subset:{label}", label, "A(pyvc)", "undecided",
                  detail=f"outside subset / stale contract: {ex}")
        return {"stale": True}
    # vacuity: covers
    for name, pc in exe.covers:
        r = E.cover_sat(pc)
        if r == z3.unsat:
            run.crash(f"vacuity: cover `{name}` of {label} is unsatisfiable (contradictory requires/invariants)")
    if not obs:
        run.crash(f"vacuity: no obligations generated for {label}")
    nd = 0
    seen = {}
    bounded_runs = {}
    for ob in obs:
        oid = ob.oid + (f"[{tag}]" if tag else "")
        # several paths may emit the same id: number them
        seen[oid] = seen.get(oid, 0) + 1
        occurrence = seen[oid]
        if seen[oid] > 1:
            oid = f"{oid}#{seen[oid]}"
        if getattr(run, "only", None) and not any(oid.startswith(p) for p in run.only):
            continue
        status, backend, dt, model = E.solve(ob, timeout_ms)
        cex_exe = exe
        if status == "undecided":
            # finite-universe refutation: same executor, quantifiers expanded over [0,B), lengths restricted to <= B
            key = (ob.oid, occurrence)
            for B in (2, 3, 4):
                bex = bounded_runs.get(B)
                if bex is None:
                    bex = run_bounded(contract, fn, relpath, contracts, B)
                    bounded_runs[B] = bex
                if bex is None:
                    break
                cand = bex["index"].get(key)
                if cand is None:
                    continue
                t1 = time.time()
                sol = z3.Solver()
                sol.set("timeout", timeout_ms)
                for f in cand.pc:
                    sol.add(f)
                for f in bex["exe"].restrictions:
                    sol.add(f)
                E.add_distinct(sol)
                sol.add(z3.Not(cand.goal))
                r = sol.check()
                dt += time.time() - t1
                if r == z3.sat:
                    status, backend, model = "violated", f"z3-5.1(api) finite-universe B={B}", sol.model()
                    ob, cex_exe = cand, bex["exe"]
                    break
        if status == "undecided":
            status, backend, dt2 = E.solve_second(ob, timeout_ms)
            dt += dt2
            if status == "violated":
                status = "undecided"   # sat without a usable model from an external solver on a quantified query: not trusted
                backend += " (sat, no model)"
        if status == "discharged":
            nd += 1
            run.oblig(oid, label, "A(pyvc)", "discharged", backend, dt)
            continue
        if status == "undecided":
            run.oblig(oid, label, "A(pyvc)", "undecided", backend, dt, detail="solver unknown/timeout (z3, cvc5, z3-4.8)")
            continue
        # sat: counter-model
        st = ob.state
        exe0, exe = exe, cex_exe
        size_terms = []
        for n, v in exe.entry_state.env.items():
            dv = exe.entry_state.deref(v) if isinstance(v, E.Ref) else v
            if isinstance(dv, E.SeqV):
                size_terms.append(E.to_z3(dv.len))
            elif E.is_z3(dv) and dv.sort() == z3.IntSort():
                size_terms.append(dv)
        m2 = (minimise(ob, exe, size_terms) if exe is exe0 else None) or model
        cex = {}
        for n, v in exe.entry_state.env.items():
            try:
                cex[n] = model_value(m2, exe.entry_state, v)
            except Exception as ex:  # pragma: no cover
                cex[n] = f"<{ex}>"
        try:
            cex["__fs__"] = {k: model_value(m2, exe.entry_state, v) for k, v in exe.entry_fs.items()}
        except Exception:
            pass
        locals_ = {}
        for n, v in st.env.items():
            if n in cex or isinstance(v, (E.FuncV, E.LambdaV, E.ConstV, E.UnboundAfterLoop)):
                continue
            try:
                locals_[n] = model_value(m2, st, v)
            except Exception:
                pass
        detail = {"obligation": oid, "kind": ob.kind, "line": ob.lineno, "note": ob.note, "inputs": cex,
                  "state_at_failure": locals_, "solver": backend, "branch_trace": st.trace[-12:]}
        fired, rdetail = (False, None)
        if replay is not None:
            try:
                fired, rdetail = replay(cex, locals_, ob)
            except Exception as ex:
                rdetail = f"replay raised {ex!r}"
        detail["native_replay"] = rdetail
        if stale_reason and not fired:
            exe = exe0
            run.oblig(oid, label, "A(pyvc)", "undecided", backend, dt,
                      detail=f"refuted but contract is stale ({stale_reason}) and the counter-model does not replay natively")
            continue
        exe = exe0
        run.oblig(oid, label, "A(pyvc)", "violated", backend, dt)
        fields = {"obligation": oid}
        fields.update(property_fields or {})
        run.violation(oid, label, f"{ob.kind} obligation refuted by {backend}: {ob.note or ob.oid}",
                      fields=fields, replay=detail, no_input=not fired, engine="A(pyvc)")
    run.extra.setdefault("pyvc", {})[label] = {
        "source": relpath, "obligations": len(obs), "discharged": nd, "paths": exe.n_paths,
        "seconds": round(time.time() - t0, 2), "stale": stale_reason,
        "abstracted_statements": {k: v.get("assume", []) for k, v in contract.abstract.items()},
        "asserts": contract.asserts, "dropped_by_extraction": E.DROPPED,
    }
    return {"stale": bool(stale_reason), "obligations": len(obs), "discharged": nd}
