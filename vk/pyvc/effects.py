"""Effect (frame / modifies-clause) obligations for C13: which statements of a function can write a denotation-relevant part of a *parameter*.

For each function under contract the current source is scanned (ast).  A small flow-insensitive-in-branches, order-sensitive alias analysis tracks for
every local name whether it may denote (a component of) a parameter:  `mps = self`, `x = self if c else self.copy()`, `node = self.root`,
`termlist = [self]`, `for t in termlist`, `for a, b in zip(self.node_list, new.node_list)`, `y = self.canonicalise()` (in-place methods return
their receiver).  Results of copy()/metacopy()/constructors/operators are new objects.  Every statement that
  * assigns through a parameter alias (`p.coeff = ..`, `p[i] = ..`, `p.qn[i] = ..`, tree: `node.tensor = ..` for a node of the parameter),
  * calls an in-place method on a parameter alias, or
  * hands a parameter alias to a callee known to modify its argument,
is an *effect*  (function, kind, parameter, access path / callee); so is a `return` of (a component of) a parameter ("returns-alias": the caller would
receive an object whose later in-place use reaches the argument).  The sidecar gives each function a modifies clause: the set of effects it may
have, each with the reason why the represented vector is preserved (R1 callee contract: gauge moves; R2 field outside the denotation:
configuration objects; R3 a stated joint rewrite such as the prefactor folding of Mps.add).  An effect outside the clause is a failed frame
obligation.  Effects are keyed by (kind, parameter, path), not by statement text or line, so harmless edits do not disturb them.

What the analysis assumes (listed as assumptions in the evidence): method names identify in-place behaviour (tables below); aliasing through
containers other than list/tuple literals, closures and attributes of *other* objects is not tracked; callee effects are by table, not inferred.
"""
import ast

NON_DENOTATION_FIELDS = {"compress_config", "evolve_config", "optimize_config", "model", "mpos", "offset", "stat", "guess_dt"}
PRESERVING_INPLACE = {"canonicalise", "ensure_left_canonical", "ensure_right_canonical", "move_qnidx"}
RETURNS_SELF = PRESERVING_INPLACE | {"normalize", "compress"}
# method -> None (always in place) | "inplace" (only with inplace=True)
MUTATING_METHODS = {"scale": "inplace", "to_complex": "inplace", "normalize": None, "compress": None, "_update_ms": None, "_update_mps": None, "_push_cano": None,
                    "_switch_direction": None, "build_empty_qn": None, "build_none_qn": None, "update_2site": None, "push_cano_to_parent": None,
                    "push_cano_to_child": None, "compress_node": None, "merge_to_parent": None, "merge_to_child": None, "try_swap_site": None,
                    "expand_bond_dimension": None, "clear": None}
MODIFYING_CALLEES = {"evolve_tdvp_ps": 0, "evolve_tdvp_ps2": 0, "_tdvp_ps_forward": 0, "_tdvp_ps_backward": 0, "compress_recursion": 1, "normalize": 0,
                     "optimize_mps": 0, "method": 0,
                     # _sum(list): reduce(add) over ONE summand returns the summand itself, which is then canonicalised and compressed in place
                     "_sum": 0}


def _inplace_true(call):
    return any(kw.arg == "inplace" and isinstance(kw.value, ast.Constant) and kw.value.value is True for kw in call.keywords)


def origin(e, alias):
    """(parameter, access path) the value of e may denote, or None when it is a new object / unknown"""
    if isinstance(e, ast.Name):
        return alias.get(e.id)
    if isinstance(e, ast.IfExp):
        return origin(e.body, alias) or origin(e.orelse, alias)
    if isinstance(e, ast.Attribute):
        o = origin(e.value, alias)
        return (o[0], o[1] + (e.attr,)) if o else None
    if isinstance(e, (ast.Subscript, ast.Starred)):
        o = origin(e.value, alias)
        return (o[0], o[1] + ("[]",)) if o and isinstance(e, ast.Subscript) else o
    if isinstance(e, (ast.List, ast.Tuple)):
        for x in e.elts:
            o = origin(x, alias)
            if o is not None:
                return (o[0], o[1] + ("<in list>",))
        return None
    if isinstance(e, ast.Call) and isinstance(e.func, ast.Attribute):
        m = e.func.attr
        if m in RETURNS_SELF or (m in MUTATING_METHODS and (MUTATING_METHODS[m] is None or _inplace_true(e))):
            return origin(e.func.value, alias)      # in-place methods return their receiver
        return None
    return None


def _bind(target, o, alias):
    if isinstance(target, ast.Name):
        if o is not None:
            alias[target.id] = o
        else:
            alias.pop(target.id, None)
    elif isinstance(target, (ast.Tuple, ast.List)):
        for t in target.elts:
            _bind(t, None, alias)


def analyse(fn):
    """returns list of (lineno, statement text, parameter, kind, detail)"""
    params = [a.arg for a in fn.args.args] + ([fn.args.vararg.arg] if fn.args.vararg else [])
    alias = {p: (p, ()) for p in params}
    effects = []

    def text(s):
        return ast.unparse(s).split("\n")[0][:110]

    def calls_of(s):
        if isinstance(s, (ast.For, ast.While, ast.If, ast.With, ast.Try, ast.FunctionDef)):
            heads = [getattr(s, "test", None), getattr(s, "iter", None)] + [i.context_expr for i in getattr(s, "items", [])]
            for h in heads:
                if h is not None:
                    yield from (n for n in ast.walk(h) if isinstance(n, ast.Call))
        else:
            yield from (n for n in ast.walk(s) if isinstance(n, ast.Call))

    def visit(s):
        # ---- effects of this statement (evaluated with the aliases valid before it)
        targets = s.targets if isinstance(s, ast.Assign) else ([s.target] if isinstance(s, (ast.AugAssign, ast.AnnAssign)) else [])
        for t in targets:
            for tt in (t.elts if isinstance(t, (ast.Tuple, ast.List)) else [t]):
                if isinstance(tt, (ast.Attribute, ast.Subscript)):
                    o = origin(tt, alias)
                    if o is not None:
                        effects.append((s.lineno, text(s), o[0], "write", ".".join(x for x in o[1] if x != "<in list>")))
        if isinstance(s, ast.Return) and s.value is not None:
            # value semantics: a function documented to return a new object must not hand back (a component of) one of its parameters
            vals = s.value.elts if isinstance(s.value, ast.Tuple) else [s.value]
            for v in vals:
                o = origin(v, alias)
                if o is not None and "<in list>" not in o[1]:
                    effects.append((s.lineno, text(s), o[0], "returns-alias", ".".join(o[1])))
        for n in calls_of(s):
            f = n.func
            if isinstance(f, ast.Attribute):
                recv = origin(f.value, alias)
                if recv is not None and "<in list>" not in recv[1][-1:]:
                    path = ".".join(x for x in recv[1] if x != "<in list>")
                    if f.attr in MUTATING_METHODS and (MUTATING_METHODS[f.attr] is None or _inplace_true(n)):
                        effects.append((s.lineno, text(s), recv[0], "inplace-call", (path + "." if path else "") + f.attr))
                    elif f.attr in PRESERVING_INPLACE:
                        effects.append((s.lineno, text(s), recv[0], "preserving-call", (path + "." if path else "") + f.attr))
            fname = f.id if isinstance(f, ast.Name) else (f.attr if isinstance(f, ast.Attribute) and isinstance(f.value, ast.Name) and f.value.id not in alias else None)
            if fname in MODIFYING_CALLEES:
                pos = MODIFYING_CALLEES[fname]
                if len(n.args) > pos:
                    o = origin(n.args[pos], alias)
                    if o is not None:
                        effects.append((s.lineno, text(s), o[0], "passed-to-modifying-callee", fname))
        # ---- alias updates
        if isinstance(s, ast.Assign) and len(s.targets) == 1:
            t = s.targets[0]
            if isinstance(t, ast.Name):
                _bind(t, origin(s.value, alias), alias)
            elif isinstance(t, (ast.Tuple, ast.List)):
                if isinstance(s.value, (ast.Tuple, ast.List)) and len(s.value.elts) == len(t.elts):
                    for a, b in zip(t.elts, s.value.elts):
                        _bind(a, origin(b, alias), alias)
                else:
                    _bind(t, None, alias)
        if isinstance(s, ast.For):
            it = s.iter
            if isinstance(it, ast.Call) and isinstance(it.func, ast.Name) and it.func.id == "zip" and isinstance(s.target, ast.Tuple) and len(s.target.elts) == len(it.args):
                for a, b in zip(s.target.elts, it.args):
                    o = origin(b, alias)
                    _bind(a, (o[0], o[1] + ("[]",)) if o else None, alias)
            elif isinstance(it, ast.Call) and isinstance(it.func, ast.Name) and it.func.id == "enumerate" and isinstance(s.target, ast.Tuple) and len(s.target.elts) == 2:
                o = origin(it.args[0], alias)
                _bind(s.target.elts[0], None, alias)
                _bind(s.target.elts[1], (o[0], o[1] + ("[]",)) if o else None, alias)
            elif isinstance(it, ast.Call) and isinstance(it.func, ast.Name) and it.func.id == "reversed":
                o = origin(it.args[0], alias)
                _bind(s.target, (o[0], o[1] + ("[]",)) if o else None, alias)
            else:
                o = origin(it, alias)
                _bind(s.target, (o[0], o[1] + ("[]",)) if o else None, alias)
        if isinstance(s, ast.If):
            # may-alias join of the two branches
            before = dict(alias)
            for ch in s.body:
                if not isinstance(ch, (ast.FunctionDef, ast.ClassDef)):
                    visit(ch)
            after_then = dict(alias)
            alias.clear()
            alias.update(before)
            for ch in s.orelse:
                if not isinstance(ch, (ast.FunctionDef, ast.ClassDef)):
                    visit(ch)
            for k, v in after_then.items():
                alias.setdefault(k, v)
            return
        before_loop = dict(alias) if isinstance(s, (ast.For, ast.While)) else None
        for blk in ("body", "orelse", "finalbody"):
            for ch in getattr(s, blk, []) or []:
                if isinstance(ch, ast.stmt) and not isinstance(ch, (ast.FunctionDef, ast.ClassDef)):
                    visit(ch)
        if before_loop is not None:
            # a loop body may run zero times: an alias that the body rebinds to a new object may still hold afterwards
            for k, v in before_loop.items():
                alias.setdefault(k, v)
        if isinstance(s, ast.Try):
            for h in s.handlers:
                for ch in h.body:
                    visit(ch)

    for s in fn.body:
        if not isinstance(s, (ast.FunctionDef, ast.ClassDef)):
            visit(s)
    return effects


def classify(effect):
    """R1 / R2 by rule, else None (needs an R3 entry in the function's modifies clause)"""
    ln, txt, param, kind, detail = effect
    parts = [p for p in detail.replace("[]", "").split(".") if p]
    if kind == "preserving-call":
        return "R1 gauge move: denotation preserved by the callee's contract (C03/C04)"
    if kind in ("write", "inplace-call") and any(p in NON_DENOTATION_FIELDS for p in parts):
        return "R2 configuration / cache field: not part of the represented vector"
    return None
